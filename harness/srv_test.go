package harness

import (
	"bufio"
	"context"
	"encoding/json"
	"io"
	"net"
	"net/http"
	"os"
	"strconv"
	"testing"
	"time"

	"github.com/gammazero/nexus/v3/client"
	"github.com/gammazero/nexus/v3/router"
	"github.com/gammazero/nexus/v3/transport/serialize"
	"github.com/gammazero/nexus/v3/wamp"
	"github.com/gorilla/websocket"
)

// C15, the network front ends (spec/Srv.tla): a real router with a real
// WebsocketServer / RawSocketServer listening on the loopback interface; the
// harness is the connecting client (gorilla's dialer, or raw octets over TCP).
// Every step is a request and its answer (or the end of the connection), so the
// scenarios run in real time without any notion of quiescence.

type SrvInput struct {
	Op     string   `json:"op"`
	Offers []string `json:"offers"`
	Origin string   `json:"origin"`
	Magic  bool     `json:"magic"`
	Lenn   int      `json:"lenn"`
	Sern   int      `json:"sern"`
	Rsv    bool     `json:"rsv"`
	Len    int      `json:"len"`
	Scheme string   `json:"scheme"` // op cconnect: the nexus client connects with this URL scheme ...
	Ser    string   `json:"ser"`    // ... and this serialization
}

type SrvScenario struct {
	ID      string     `json:"id"`
	Kind    string     `json:"kind"` // "ws" | "rs"
	Limit   int        `json:"limit"`
	Origins string     `json:"origins"`
	Steps   []SrvInput `json:"steps"`
}

type SrvEvent struct {
	Ev      string   `json:"ev"`
	Scn     string   `json:"scn"`
	Limit   int      `json:"limit"`
	Origins string   `json:"origins"`
	In      SrvInput `json:"in"`
	Kind    string   `json:"kind"`
	Status  int      `json:"status"`
	Proto   string   `json:"proto"`
	Reply   string   `json:"reply"`
	Frame   string   `json:"frame"`
	Closed  bool     `json:"closed"`
	Leak    bool     `json:"leak"` // transport.auth visible in wamp.session.get
	HsReply []any    `json:"hsreply"`
}

const srvWait = 15 * time.Second

func serializerOfProto(p string) serialize.Serializer {
	switch p {
	case "wamp.2.msgpack":
		return &serialize.MessagePackSerializer{}
	case "wamp.2.cbor":
		return &serialize.CBORSerializer{}
	}
	return &serialize.JSONSerializer{}
}

// ended tells the end of a connection from a read that merely timed out.
func ended(err error) (string, bool) {
	if ne, ok := err.(net.Error); ok && ne.Timeout() {
		return "TIMEOUT", false
	}
	return "", true
}

func replyName(m wamp.Message, err error) string {
	if err != nil || m == nil {
		return "UNDECODABLE"
	}
	return m.MessageType().String()
}

func runSrv(enc *json.Encoder, sc *SrvScenario) {
	emit := func(ev SrvEvent) {
		if ev.HsReply == nil {
			ev.HsReply = []any{}
		}
		if ev.In.Offers == nil {
			ev.In.Offers = []string{}
		}
		if err := enc.Encode(ev); err != nil {
			panic(err)
		}
	}
	r, err := router.NewRouter(&router.Config{RealmConfigs: []*router.RealmConfig{{URI: "srv.realm", AnonymousAuth: true}}}, discardLog)
	if err != nil {
		panic(err)
	}
	defer r.Close()
	emit(SrvEvent{Ev: "reset", Scn: sc.ID, Limit: sc.Limit, Origins: sc.Origins})

	var addr string
	var closer io.Closer
	if sc.Kind == "ws" {
		s := router.NewWebsocketServer(r)
		// what the upgrade leaves for authenticators (transport.auth) must stay with them
		s.EnableTrackingCookie = true
		s.EnableRequestCapture = true
		switch sc.Origins {
		case "list":
			if err := s.AllowOrigins([]string{"good.example", "*.glob.example"}); err != nil {
				panic(err)
			}
		case "star":
			if err := s.AllowOrigins([]string{"*"}); err != nil {
				panic(err)
			}
		}
		closer, err = s.ListenAndServe("127.0.0.1:0")
	} else {
		s := router.NewRawSocketServer(r)
		s.RecvLimit = sc.Limit
		closer, err = s.ListenAndServe("tcp", "127.0.0.1:0")
	}
	if err != nil {
		panic(err)
	}
	defer closer.Close()
	addr = closer.(net.Listener).Addr().String()

	var ws *websocket.Conn
	var tc net.Conn
	var lastMsg wamp.Message
	var ser serialize.Serializer
	proto := ""
	defer func() {
		if ws != nil {
			_ = ws.Close()
		}
		if tc != nil {
			_ = tc.Close()
		}
	}()
	// one request, one answer (or the end of the connection)
	roundTrip := func(m wamp.Message) (string, string, bool) {
		b, err := ser.Serialize(m)
		if err != nil {
			panic(err)
		}
		if ws != nil {
			ft := websocket.BinaryMessage
			if proto == "wamp.2.json" {
				ft = websocket.TextMessage
			}
			if err := ws.WriteMessage(ft, b); err != nil {
				return "", "", true
			}
			_ = ws.SetReadDeadline(time.Now().Add(srvWait))
			mt, data, err := ws.ReadMessage()
			if err != nil {
				r, c := ended(err)
				return r, "", c
			}
			frame := "binary"
			if mt == websocket.TextMessage {
				frame = "text"
			}
			rm, derr := ser.Deserialize(data)
			lastMsg = rm
			return replyName(rm, derr), frame, false
		}
		hdr := []byte{0, byte(len(b) >> 16), byte(len(b) >> 8), byte(len(b))}
		if _, err := tc.Write(append(hdr, b...)); err != nil {
			return "", "", true
		}
		_ = tc.SetReadDeadline(time.Now().Add(srvWait))
		var rh [4]byte
		if _, err := io.ReadFull(tc, rh[:]); err != nil {
			r, c := ended(err)
			return r, "", c
		}
		buf := make([]byte, int(rh[1])<<16|int(rh[2])<<8|int(rh[3]))
		if _, err := io.ReadFull(tc, buf); err != nil {
			r, c := ended(err)
			return r, "", c
		}
		rm, derr := ser.Deserialize(buf)
		lastMsg = rm
		return replyName(rm, derr), "", false
	}
	var sid wamp.ID
	for _, in := range sc.Steps {
		ev := SrvEvent{Ev: "step", Scn: sc.ID, In: in, Kind: sc.Kind}
		switch in.Op {
		case "sget":
			ev.Reply, ev.Frame, ev.Closed = roundTrip(&wamp.Call{Request: 9, Options: wamp.Dict{}, Procedure: "wamp.session.get", Arguments: wamp.List{sid}})
			if res, ok := lastMsg.(*wamp.Result); ok && len(res.Arguments) > 0 {
				if d, ok := wamp.AsDict(res.Arguments[0]); ok {
					if tr, ok := wamp.AsDict(d["transport"]); ok && tr != nil {
						_, ev.Leak = tr["auth"]
					}
				}
			}
		case "cconnect":
			// the nexus client library is the connecting side
			ctx, cancel := context.WithTimeout(context.Background(), srvWait)
			cfg := client.Config{Realm: "srv.realm", ResponseTimeout: srvWait, Logger: discardLog,
				Serialization: map[string]serialize.Serialization{"json": serialize.JSON, "msgpack": serialize.MSGPACK, "cbor": serialize.CBOR}[in.Ser]}
			cl, err := client.ConnectNet(ctx, in.Scheme+"://"+addr+"/", cfg)
			cancel()
			if err != nil {
				ev.Reply, ev.Closed = "ERROR", true
				break
			}
			got := make(chan struct{}, 1)
			ev.Reply = "NOTHING"
			if err := cl.Subscribe("srv.topic", func(*wamp.Event) {
				select {
				case got <- struct{}{}:
				default:
				}
			}, nil); err == nil {
				if err := cl.Publish("srv.topic", wamp.Dict{"acknowledge": true, "exclude_me": false}, wamp.List{"x"}, nil); err == nil {
					select {
					case <-got:
						ev.Reply = "EVENT"
					case <-time.After(srvWait):
					}
				}
			}
			_ = cl.Close()
		case "upgrade":
			d := websocket.Dialer{Subprotocols: in.Offers, HandshakeTimeout: srvWait}
			h := http.Header{}
			switch in.Origin {
			case "same":
				h.Set("Origin", "http://"+addr)
			case "good":
				h.Set("Origin", "https://good.example")
			case "glob":
				h.Set("Origin", "https://x.glob.example")
			case "evil":
				h.Set("Origin", "https://evil.example")
			}
			c, resp, err := d.Dial("ws://"+addr+"/", h)
			if resp != nil {
				ev.Status = resp.StatusCode
			}
			if err != nil {
				ev.Closed = true
				break
			}
			ws = c
			proto = c.Subprotocol()
			ev.Proto = proto
			ser = serializerOfProto(proto)
			if proto == "" {
				// nothing was agreed: the server ends the connection
				_ = ws.SetReadDeadline(time.Now().Add(srvWait))
				if _, _, err := ws.ReadMessage(); err != nil {
					ev.Closed = true
				}
			}
		case "hello":
			ev.Reply, ev.Frame, ev.Closed = roundTrip(&wamp.Hello{Realm: "srv.realm", Details: wamp.Dict{"roles": wamp.Dict{"publisher": wamp.Dict{}, "subscriber": wamp.Dict{}, "caller": wamp.Dict{}}}})
			if w, ok := lastMsg.(*wamp.Welcome); ok {
				sid = w.ID
			}
		case "pub":
			ev.Reply, ev.Frame, ev.Closed = roundTrip(&wamp.Publish{Request: 7, Options: wamp.Dict{"acknowledge": true}, Topic: "srv.topic"})
		case "rshs":
			c, err := net.DialTimeout("tcp", addr, srvWait)
			if err != nil {
				panic(err)
			}
			tc = c
			b := []byte{0x7f, byte(in.Lenn<<4 | in.Sern), 0, 0}
			if !in.Magic {
				b[0] = 0x7e
			}
			if !in.Rsv {
				b[3] = 1
			}
			_, _ = tc.Write(b)
			_ = tc.SetReadDeadline(time.Now().Add(srvWait))
			var rep [4]byte
			if _, err := io.ReadFull(tc, rep[:]); err != nil {
				ev.Closed = true
				break
			}
			if rep[1]&0xf == 0 {
				ev.HsReply = []any{"error", int(rep[1] >> 4)}
				// an error reply is followed by the end of the connection
				var one [1]byte
				if _, err := tc.Read(one[:]); err != nil {
					ev.Closed = true
				}
			} else {
				ev.HsReply = []any{"ok", int(rep[1] >> 4), int(rep[1] & 0xf)}
				ser = serializerFor(map[int]string{1: "json", 2: "msgpack", 3: "cbor"}[in.Sern])
			}
		case "rsbig":
			_, _ = tc.Write([]byte{0, byte(in.Len >> 16), byte(in.Len >> 8), byte(in.Len)})
			_ = tc.SetReadDeadline(time.Now().Add(srvWait))
			var one [1]byte
			if _, err := tc.Read(one[:]); err != nil {
				ev.Closed = true
			}
		case "nop":
		}
		emit(ev)
	}
}

// TestSrvExec runs the front end scenarios of $VERIF_SCN (same protocol as TestExec).
func TestSrvExec(t *testing.T) {
	scnFile := os.Getenv("VERIF_SCN")
	outFile := os.Getenv("VERIF_OUT")
	if scnFile == "" || outFile == "" {
		t.Skip("VERIF_SCN/VERIF_OUT not set")
	}
	skip, _ := strconv.Atoi(os.Getenv("VERIF_SKIP"))
	in, err := os.Open(scnFile)
	if err != nil {
		t.Fatal(err)
	}
	defer in.Close()
	out, err := os.OpenFile(outFile, os.O_CREATE|os.O_WRONLY|os.O_APPEND, 0o644)
	if err != nil {
		t.Fatal(err)
	}
	defer out.Close()
	w := bufio.NewWriter(out)
	defer w.Flush()
	enc := json.NewEncoder(w)
	sc := bufio.NewScanner(in)
	sc.Buffer(make([]byte, 1<<20), 1<<26)
	idx := 0
	for sc.Scan() {
		line := sc.Bytes()
		if len(line) == 0 {
			continue
		}
		idx++
		if idx <= skip {
			continue
		}
		var s SrvScenario
		if err := json.Unmarshal(line, &s); err != nil {
			t.Fatalf("scenario %d: %v", idx, err)
		}
		w.Flush()
		_ = os.WriteFile(outFile+".progress", []byte(strconv.Itoa(idx)+" "+s.ID+"\n"), 0o644)
		stop := watchdog(s.ID)
		runSrv(enc, &s)
		close(stop)
		w.Flush()
	}
	_ = os.WriteFile(outFile+".progress", []byte("done\n"), 0o644)
}
