package harness

import (
	"errors"
	"io"
	"log"
	"net"
	"sync"
	"time"

	"github.com/gammazero/nexus/v3/transport"
	"github.com/gammazero/nexus/v3/transport/serialize"
	"github.com/gammazero/nexus/v3/wamp"
)

// Network transports for router scenarios (C15): the router side is the real
// rawsocket / websocket peer of the transport package; the harness side speaks
// the wire protocol itself (rawsocket framing over net.Pipe) or uses a second
// websocket peer on the other end of an in-memory websocket connection.

func serializerFor(name string) serialize.Serializer {
	switch name {
	case "msgpack":
		return &serialize.MessagePackSerializer{}
	case "cbor":
		return &serialize.CBORSerializer{}
	}
	return &serialize.JSONSerializer{}
}

func rawsocketProto(name string) byte {
	switch name {
	case "msgpack":
		return 2
	case "cbor":
		return 3
	}
	return 1
}

var discardLog = log.New(io.Discard, "", 0)

// wirePeer is the harness end of a rawsocket connection: it frames and
// serialises what is sent, and delivers what it decodes.
type wirePeer struct {
	conn   net.Conn
	ser    serialize.Serializer
	rd     chan wamp.Message
	wr     chan wamp.Message
	closed chan struct{}
	once   sync.Once
}

func (w *wirePeer) Recv() <-chan wamp.Message { return w.rd }
func (w *wirePeer) Send() chan<- wamp.Message { return w.wr }
func (w *wirePeer) IsLocal() bool             { return false }
func (w *wirePeer) Close() {
	w.once.Do(func() {
		close(w.closed)
		_ = w.conn.Close()
	})
}

func (w *wirePeer) run() {
	go func() { // writer
		for {
			select {
			case m := <-w.wr:
				b, err := w.ser.Serialize(m)
				if err != nil {
					continue
				}
				hdr := []byte{0, byte(len(b) >> 16), byte(len(b) >> 8), byte(len(b))}
				if _, err := w.conn.Write(append(hdr, b...)); err != nil {
					return
				}
			case <-w.closed:
				return
			}
		}
	}()
	go func() { // reader
		defer close(w.rd)
		for {
			var hdr [4]byte
			if _, err := io.ReadFull(w.conn, hdr[:]); err != nil {
				return
			}
			n := int(hdr[1])<<16 | int(hdr[2])<<8 | int(hdr[3])
			buf := make([]byte, n)
			if _, err := io.ReadFull(w.conn, buf); err != nil {
				return
			}
			if hdr[0]&7 != 0 {
				continue
			}
			m, err := w.ser.Deserialize(buf)
			if err != nil {
				continue
			}
			select {
			case w.rd <- m:
			case <-w.closed:
				return
			}
		}
	}()
}

// rawsocketPair returns the harness end and the router end (the real
// rawsocket peer, after the real server handshake) of an in-memory connection.
func rawsocketPair(ser string, qsize int) (wamp.Peer, wamp.Peer, error) {
	cconn, sconn := net.Pipe()
	type res struct {
		p   wamp.Peer
		err error
	}
	done := make(chan res, 1)
	go func() {
		p, err := transport.AcceptRawSocket(sconn, discardLog, 0, qsize)
		done <- res{p, err}
	}()
	// client side of the handshake: magic, max length 2^24 (nibble 15), serializer
	if _, err := cconn.Write([]byte{0x7f, 0xf0 | rawsocketProto(ser), 0, 0}); err != nil {
		return nil, nil, err
	}
	var rep [4]byte
	if _, err := io.ReadFull(cconn, rep[:]); err != nil {
		return nil, nil, err
	}
	r := <-done
	if r.err != nil {
		return nil, nil, r.err
	}
	if rep[0] != 0x7f || rep[1]&0xf != rawsocketProto(ser) {
		return nil, nil, errors.New("unexpected rawsocket handshake reply")
	}
	w := &wirePeer{conn: cconn, ser: serializerFor(ser), rd: make(chan wamp.Message), wr: make(chan wamp.Message), closed: make(chan struct{})}
	w.run()
	return w, r.p, nil
}

// ---------------------------------------------------------------------------
// an in-memory websocket connection (transport.WebsocketConnection)

type wsFrame struct {
	typ  int
	data []byte
}

type memWS struct {
	in     chan wsFrame
	out    chan wsFrame
	closed chan struct{}
	peer   *memWS
	once   sync.Once
	ping   func(string) error
	pong   func(string) error
	mu     sync.Mutex
}

func memWSPair() (*memWS, *memWS) {
	ab, ba := make(chan wsFrame, 1), make(chan wsFrame, 1)
	a := &memWS{in: ba, out: ab, closed: make(chan struct{})}
	b := &memWS{in: ab, out: ba, closed: make(chan struct{})}
	a.peer, b.peer = b, a
	return a, b
}

func (c *memWS) Close() error {
	c.once.Do(func() { close(c.closed) })
	c.peer.once.Do(func() { close(c.peer.closed) })
	return nil
}

func (c *memWS) WriteControl(messageType int, data []byte, deadline time.Time) error {
	return c.WriteMessage(messageType, data)
}

func (c *memWS) WriteMessage(messageType int, data []byte) error {
	cp := append([]byte{}, data...)
	select {
	case c.out <- wsFrame{messageType, cp}:
		return nil
	case <-c.closed:
		return errors.New("websocket closed")
	}
}

func (c *memWS) ReadMessage() (int, []byte, error) {
	for {
		select {
		case f := <-c.in:
			switch f.typ {
			case 9: // ping
				c.mu.Lock()
				h := c.ping
				c.mu.Unlock()
				if h != nil {
					_ = h(string(f.data))
				}
				continue
			case 8: // close: a websocket implementation reports it as an error, never as a message
				return 0, nil, errors.New("websocket: close 1000 (normal)")
			case 10: // pong
				c.mu.Lock()
				h := c.pong
				c.mu.Unlock()
				if h != nil {
					_ = h(string(f.data))
				}
				continue
			}
			return f.typ, f.data, nil
		case <-c.closed:
			return 0, nil, errors.New("websocket closed")
		}
	}
}

func (c *memWS) SetPongHandler(h func(string) error) { c.mu.Lock(); c.pong = h; c.mu.Unlock() }
func (c *memWS) SetPingHandler(h func(string) error) { c.mu.Lock(); c.ping = h; c.mu.Unlock() }
func (c *memWS) Subprotocol() string                  { return "" }

// websocketPair returns the harness end and the router end of an in-memory
// websocket connection; both ends are real websocket peers.
func websocketPair(ser string, qsize int, keepAlive time.Duration) (wamp.Peer, wamp.Peer) {
	a, b := memWSPair()
	pt := 2 // binary
	if ser == "json" {
		pt = 1 // text
	}
	cli := transport.NewWebsocketPeer(a, serializerFor(ser), pt, discardLog, 0, 16)
	rtr := transport.NewWebsocketPeer(b, serializerFor(ser), pt, discardLog, keepAlive, qsize)
	return cli, rtr
}
