package harness

import (
	"bufio"
	"encoding/json"
	"fmt"
	"math"
	"os"
	"reflect"
	"sort"
	"strconv"
	"testing"

	"github.com/gammazero/nexus/v3/transport/serialize"
	"github.com/gammazero/nexus/v3/wamp"
)

// C14: vectors enumerated by spec/Codec.tla are built as real messages,
// serialised and deserialised with every serializer; what came back is logged
// in the abstract form of the specification for validation by TLC.

// AV is a value of the WAMP data model in the record shape of Codec.tla.
type AV struct {
	T string            `json:"t"`
	S string            `json:"s"`
	Q []json.RawMessage `json:"q"`
}

// MarshalJSON keeps the record shape of Codec.tla (q is never null).
func (a AV) MarshalJSON() ([]byte, error) {
	q := a.Q
	if q == nil {
		q = []json.RawMessage{}
	}
	return json.Marshal(struct {
		T string            `json:"t"`
		S string            `json:"s"`
		Q []json.RawMessage `json:"q"`
	}{a.T, a.S, q})
}

type avPair struct {
	K string `json:"k"`
	V AV     `json:"v"`
}

type CodecVec struct {
	Code   int  `json:"code"`
	Fields []AV `json:"fields"`
	Pos    int  `json:"pos"`
}

type CodecRes struct {
	OK     bool   `json:"ok"`
	Fields []any  `json:"fields"`
	N      int    `json:"n"`
	Err    string `json:"err,omitempty"`
}

type CodecLine struct {
	Kind string              `json:"kind"`
	Vec  CodecVec            `json:"vec"`
	Res  map[string]CodecRes `json:"res"`
}

var symInts = map[string]int64{"0": 0, "1": 1, "-1": -1, "300": 300, "48": 48, "65": 65, "max": 1 << 53, "max-1": 1<<53 - 1}

func toGo(a AV) any {
	switch a.T {
	case "n":
		return nil
	case "b":
		return a.S == "true"
	case "i":
		if v, ok := symInts[a.S]; ok {
			return v
		}
		v, _ := strconv.ParseInt(a.S, 10, 64)
		return v
	case "f":
		v, _ := strconv.ParseFloat(a.S, 64)
		return v
	case "s":
		return a.S
	case "l":
		l := wamp.List{}
		for _, r := range a.Q {
			var e AV
			if err := json.Unmarshal(r, &e); err != nil {
				panic(err)
			}
			l = append(l, toGo(e))
		}
		return l
	case "d":
		d := wamp.Dict{}
		for _, r := range a.Q {
			var p avPair
			if err := json.Unmarshal(r, &p); err != nil {
				panic(err)
			}
			d[p.K] = toGo(p.V)
		}
		return d
	}
	panic("unknown value kind " + a.T)
}

func symOf(v int64) string {
	for s, x := range symInts {
		if x == v {
			return s
		}
	}
	return strconv.FormatInt(v, 10)
}

func raw(v any) json.RawMessage {
	b, err := json.Marshal(v)
	if err != nil {
		panic(err)
	}
	return b
}

// fromGo normalises a decoded value: integers of every representation
// (including integral floats) are integers; nil containers are empty ones.
func fromGo(v any) map[string]any {
	mk := func(t, s string, q []any) map[string]any {
		if q == nil {
			q = []any{}
		}
		return map[string]any{"t": t, "s": s, "q": q}
	}
	if v == nil {
		return mk("n", "", nil)
	}
	rv := reflect.ValueOf(v)
	switch rv.Kind() {
	case reflect.Bool:
		return mk("b", strconv.FormatBool(rv.Bool()), nil)
	case reflect.Int, reflect.Int8, reflect.Int16, reflect.Int32, reflect.Int64:
		return mk("i", symOf(rv.Int()), nil)
	case reflect.Uint, reflect.Uint8, reflect.Uint16, reflect.Uint32, reflect.Uint64:
		if rv.Uint() > math.MaxInt64 {
			return mk("i", strconv.FormatUint(rv.Uint(), 10), nil)
		}
		return mk("i", symOf(int64(rv.Uint())), nil)
	case reflect.Float32, reflect.Float64:
		f := rv.Float()
		if f == math.Trunc(f) && math.Abs(f) <= 1<<53 {
			return mk("i", symOf(int64(f)), nil)
		}
		return mk("f", strconv.FormatFloat(f, 'g', -1, 64), nil)
	case reflect.String:
		return mk("s", rv.String(), nil)
	case reflect.Slice:
		if rv.Type().Elem().Kind() == reflect.Uint8 {
			return mk("s", "BYTES:"+string(rv.Bytes()), nil)
		}
		q := []any{}
		for i := 0; i < rv.Len(); i++ {
			q = append(q, fromGo(rv.Index(i).Interface()))
		}
		return mk("l", "", q)
	case reflect.Map:
		if rv.Type().Key().Kind() != reflect.String {
			// a dict of the WAMP data model comes back with string keys (wamp.Dict / map[string]any)
			return mk("?", fmt.Sprintf("%T", v), nil)
		}
		keys := []string{}
		vals := map[string]any{}
		for _, k := range rv.MapKeys() {
			ks := fmt.Sprint(k.Interface())
			keys = append(keys, ks)
			vals[ks] = rv.MapIndex(k).Interface()
		}
		sort.Strings(keys)
		q := []any{}
		for _, k := range keys {
			q = append(q, map[string]any{"k": k, "v": fromGo(vals[k])})
		}
		return mk("d", "", q)
	}
	return mk("?", fmt.Sprintf("%T", v), nil)
}

// buildMessage sets the fields of a fresh message of the given type.
func buildMessage(code int, fields []AV) wamp.Message {
	m := wamp.NewMessage(wamp.MessageType(code))
	if m == nil {
		panic("no message type " + strconv.Itoa(code))
	}
	val := reflect.ValueOf(m).Elem()
	for i, a := range fields {
		f := val.Field(i)
		g := toGo(a)
		if g == nil {
			continue
		}
		gv := reflect.ValueOf(g)
		switch {
		case gv.Type().AssignableTo(f.Type()):
			f.Set(gv)
		case gv.Type().ConvertibleTo(f.Type()):
			f.Set(gv.Convert(f.Type()))
		default:
			panic(fmt.Sprintf("field %d of %T cannot hold %T", i, m, g))
		}
	}
	return m
}

var serializers = map[string]serialize.Serializer{
	"json": &serialize.JSONSerializer{}, "msgpack": &serialize.MessagePackSerializer{}, "cbor": &serialize.CBORSerializer{},
}

func roundTrip(ser serialize.Serializer, vec CodecVec) (res CodecRes) {
	defer func() {
		if r := recover(); r != nil {
			panic(fmt.Sprintf("serializer panicked on vector %+v: %v", vec, r))
		}
	}()
	m := buildMessage(vec.Code, vec.Fields)
	b, err := ser.Serialize(m)
	if err != nil {
		return CodecRes{Err: "serialize: " + err.Error(), Fields: []any{}}
	}
	var l []any
	if err := ser.DeserializeDataItem(b, &l); err == nil {
		res.N = len(l)
	}
	m2, err := ser.Deserialize(b)
	if err != nil {
		return CodecRes{Err: "deserialize: " + err.Error(), Fields: []any{}, N: res.N}
	}
	if m2.MessageType() != m.MessageType() {
		return CodecRes{Err: "another message type came back", Fields: []any{}, N: res.N}
	}
	val := reflect.ValueOf(m2).Elem()
	res.Fields = []any{}
	for i := 0; i < val.NumField(); i++ {
		res.Fields = append(res.Fields, fromGo(val.Field(i).Interface()))
	}
	res.OK = true
	return res
}

func tryBad(ser serialize.Serializer, vec CodecVec) (res CodecRes) {
	defer func() {
		if r := recover(); r != nil {
			panic(fmt.Sprintf("serializer panicked on list %+v: %v", vec, r))
		}
	}()
	list := []any{vec.Code}
	for _, a := range vec.Fields {
		list = append(list, toGo(a))
	}
	var item any = list
	switch vec.Code {
	case -100:
		item = map[string]any{"1": "realm", "2": map[string]any{}}
	case -101:
		item = "[1,\"realm\",{}]"
	case -102:
		item = []any{}
	case -103:
		list[0] = "1"
	}
	b, err := ser.SerializeDataItem(item)
	if err != nil {
		return CodecRes{Err: "cannot encode the list: " + err.Error(), Fields: []any{}}
	}
	m, err := ser.Deserialize(b)
	res.Fields = []any{}
	if err == nil && m != nil {
		res.OK = true
		val := reflect.ValueOf(m).Elem()
		for i := 0; i < val.NumField(); i++ {
			res.Fields = append(res.Fields, fromGo(val.Field(i).Interface()))
		}
	} else if err != nil {
		res.Err = err.Error()
	}
	return res
}

// mutate feeds every prefix and single octet substitutions of an encoding to
// Deserialize: it must return, whatever it returns.
func mutate(ser serialize.Serializer, b []byte) int {
	n := 0
	for i := 0; i <= len(b); i++ {
		_, _ = ser.Deserialize(b[:i])
		n++
	}
	for i := range b {
		for _, x := range []byte{0x00, 0xff, 0x7f, 0x80, b[i] ^ 0x20, b[i] + 1} {
			c := append([]byte{}, b...)
			c[i] = x
			_, _ = ser.Deserialize(c)
			var item any
			_ = ser.DeserializeDataItem(c, &item)
			n++
		}
	}
	return n
}

func TestCodec(t *testing.T) {
	vecFile := os.Getenv("VERIF_SCN")
	outFile := os.Getenv("VERIF_OUT")
	if vecFile == "" || outFile == "" {
		t.Skip("VERIF_SCN/VERIF_OUT not set")
	}
	in, err := os.Open(vecFile)
	if err != nil {
		t.Fatal(err)
	}
	defer in.Close()
	out, err := os.Create(outFile)
	if err != nil {
		t.Fatal(err)
	}
	defer out.Close()
	w := bufio.NewWriterSize(out, 1<<20)
	defer w.Flush()
	enc := json.NewEncoder(w)
	enc.SetEscapeHTML(false)
	sc := bufio.NewScanner(in)
	sc.Buffer(make([]byte, 1<<20), 1<<26)
	mutations, nmut := 0, 0
	every, _ := strconv.Atoi(os.Getenv("VERIF_MUTATE_EVERY"))
	if every == 0 {
		every = 25
	}
	idx := 0
	for sc.Scan() {
		var l CodecLine
		if err := json.Unmarshal(sc.Bytes(), &l); err != nil {
			t.Fatal(err)
		}
		idx++
		if idx == 150 {
			// an application may re-create the MessagePack handle (the documented way to register
			// extensions late); what is decoded afterwards must be what was decoded before
			serialize.InitMsgpackHandle()
		}
		l.Res = map[string]CodecRes{}
		for name, ser := range serializers {
			if l.Kind == "good" {
				l.Res[name] = roundTrip(ser, l.Vec)
				if idx%every == 0 {
					if b, err := ser.Serialize(buildMessage(l.Vec.Code, l.Vec.Fields)); err == nil {
						mutations += mutate(ser, b)
						nmut++
					}
				}
			} else {
				l.Res[name] = tryBad(ser, l.Vec)
			}
		}
		if err := enc.Encode(l); err != nil {
			t.Fatal(err)
		}
	}
	w.Flush()
	_ = os.WriteFile(outFile+".mutations", []byte(fmt.Sprintf("%d %d\n", mutations, nmut)), 0o644)
}
