package harness

import (
	"strings"

	"github.com/gammazero/nexus/v3/wamp"
)

// hostileToClient builds a router-to-client message for a mutant of
// spec/Hostile.tla (Side = "client"). Ids >= 5000 name things the client does
// not know; in.Sub / in.Reg name a subscription / registration it holds (0 =
// none), in.Inv a fresh invocation id, in.ID the request of a waiting call.
func (x *cliExec) hostileToClient(in CliInput) wamp.Message {
	mu := in.Hm
	v := hostileValue(mu.Kind)
	id := func(n int) wamp.ID {
		if n == 0 {
			return wamp.ID(5000 + len(x.hostile))
		}
		return wamp.ID(n)
	}
	det := func(base wamp.Dict) wamp.Dict {
		switch mu.Pos {
		case "none", "request", "args", "kwargs", "subscription", "registration", "publication", "type", "error", "details", "reason", "id", "session", "roles", "authid", "authmethod", "extra":
		default:
			base[mu.Pos] = v
		}
		if strings.HasPrefix(mu.Pos, "ppt_") && mu.Pos != "ppt_scheme" {
			base["ppt_scheme"] = "mqtt"
		}
		return base
	}
	args := wamp.List{"h"}
	kw := wamp.Dict{"k": "h"}
	if mu.Pos == "args" {
		if l, ok := v.(wamp.List); ok {
			args = l
		} else {
			args = wamp.List{v}
		}
	}
	if mu.Pos == "kwargs" {
		if d, ok := v.(wamp.Dict); ok {
			kw = d
		} else {
			kw = wamp.Dict{"v": v}
		}
	}
	switch mu.T {
	case "EVENT":
		sub := id(in.Sub)
		if mu.Pos == "subscription" {
			sub = hostileID(mu.Kind)
		}
		return &wamp.Event{Subscription: sub, Publication: 1, Details: det(wamp.Dict{}), Arguments: args, ArgumentsKw: kw}
	case "INVOCATION":
		reg := id(in.Reg)
		if mu.Pos == "registration" {
			reg = hostileID(mu.Kind)
		}
		req := wamp.ID(in.Inv)
		if mu.Pos == "request" || in.Inv == 0 {
			req = wamp.ID(5000 + len(x.hostile))
		}
		x.mu.Lock()
		x.hostile[req] = true
		x.mu.Unlock()
		return &wamp.Invocation{Request: req, Registration: reg, Details: det(wamp.Dict{}), Arguments: args, ArgumentsKw: kw}
	case "RESULT":
		req := id(in.ID)
		if mu.Pos == "request" {
			req = hostileID(mu.Kind) + 5000
		}
		return &wamp.Result{Request: req, Details: det(wamp.Dict{}), Arguments: args, ArgumentsKw: kw}
	case "ERROR":
		e := &wamp.Error{Type: wamp.CALL, Request: id(in.ID), Details: wamp.Dict{}, Error: "h.error", Arguments: args, ArgumentsKw: kw}
		switch mu.Pos {
		case "type":
			e.Type = wamp.MessageType(hostileID(mu.Kind) % 100000)
		case "request":
			e.Request = hostileID(mu.Kind) + 5000
		case "details":
			if d, ok := v.(wamp.Dict); ok {
				e.Details = d
			} else {
				e.Details = nil
			}
		case "error":
			e.Error = hostileURI(mu.Kind)
		}
		return e
	case "INTERRUPT":
		req := wamp.ID(5000 + len(x.hostile))
		if mu.Pos == "request" {
			req = hostileID(mu.Kind) + 5000
		}
		o := wamp.Dict{}
		if mu.Pos == "mode" || mu.Pos == "reason" {
			o[mu.Pos] = v
		}
		return &wamp.Interrupt{Request: req, Options: o}
	case "CHALLENGE":
		return &wamp.Challenge{AuthMethod: "ticket", Extra: wamp.Dict{}}
	case "WELCOME":
		return &wamp.Welcome{ID: 99, Details: wamp.Dict{}}
	case "SUBSCRIBED":
		return &wamp.Subscribed{Request: 5001, Subscription: 5001}
	case "REGISTERED":
		return &wamp.Registered{Request: 5001, Registration: 5001}
	case "PUBLISHED":
		return &wamp.Published{Request: 5001, Publication: 1}
	case "UNSUBSCRIBED":
		return &wamp.Unsubscribed{Request: 5001}
	case "UNREGISTERED":
		return &wamp.Unregistered{Request: 5001}
	case "HELLO":
		return &wamp.Hello{Realm: "x", Details: wamp.Dict{}}
	case "PUBLISH":
		return &wamp.Publish{Request: 1, Options: wamp.Dict{}, Topic: "t1"}
	case "SUBSCRIBE":
		return &wamp.Subscribe{Request: 1, Options: wamp.Dict{}, Topic: "t1"}
	case "CALL":
		return &wamp.Call{Request: 1, Options: wamp.Dict{}, Procedure: "p1"}
	case "REGISTER":
		return &wamp.Register{Request: 1, Options: wamp.Dict{}, Procedure: "p1"}
	case "YIELD":
		return &wamp.Yield{Request: 1, Options: wamp.Dict{}}
	case "CANCEL":
		return &wamp.Cancel{Request: 1, Options: wamp.Dict{}}
	case "AUTHENTICATE":
		return &wamp.Authenticate{Signature: "x"}
	case "UNSUBSCRIBE":
		return &wamp.Unsubscribe{Request: 1, Subscription: 1}
	case "UNREGISTER":
		return &wamp.Unregister{Request: 1, Registration: 1}
	}
	return unknownMsg{}
}
