package harness

import (
	"bufio"
	"encoding/json"
	"net"
	"os"
	"strconv"
	"strings"
	"sync"
	"testing"
	"testing/synctest"

	"github.com/gammazero/nexus/v3/transport"
	"github.com/gammazero/nexus/v3/transport/serialize"
	"github.com/gammazero/nexus/v3/wamp"
)

// Octet-level rawsocket scenarios (C15, and the byte level part of C04): the
// harness is a raw client writing octets into one end of a pipe; the other end
// is handed to transport.AcceptRawSocket. Everything observable is logged for
// validation against spec/Wire.tla (TraceWire.tla).

type WireInput struct {
	Op    string `json:"op"`
	Magic bool   `json:"magic"`
	Lenn  int    `json:"lenn"`
	Sern  int    `json:"sern"`
	Rsv   bool   `json:"rsv"`
	Type  int    `json:"type"`
	Len   int    `json:"len"`
	Body  string `json:"body"`
	ID    int    `json:"id"`
	N     int    `json:"n"`
	Split bool   `json:"split"`
}

type WireScenario struct {
	ID    string      `json:"id"`
	Limit int         `json:"limit"`
	Steps []WireInput `json:"steps"`
}

type WireFrame struct {
	Type int `json:"type"`
	Len  int `json:"len"`
	ID   int `json:"id"`
}

type WireEvent struct {
	Ev        string      `json:"ev"`
	Scn       string      `json:"scn"`
	Limit     int         `json:"limit"`
	In        WireInput   `json:"in"`
	Reply     []any       `json:"reply"`
	Frames    []WireFrame `json:"frames"`
	Delivered []int       `json:"delivered"`
	Closed    bool        `json:"closed"`
}

type wireExec struct {
	enc *json.Encoder

	mu        sync.Mutex
	buf       []byte // octets the client has read and not yet parsed
	eof       bool
	delivered []int
	ser       serialize.Serializer
	hsDone    bool
}

// sized builds a message whose encoding has exactly n octets (publish = router
// to client direction uses PUBLISH, the other SUBSCRIBE; both carry id).
func sized(ser serialize.Serializer, n, id int, publish bool) []byte {
	pad := n
	var b []byte
	for i := 0; i < 12; i++ {
		if pad < 1 {
			pad = 1
		}
		var m wamp.Message
		if publish {
			m = &wamp.Publish{Request: wamp.ID(id), Options: wamp.Dict{}, Topic: wamp.URI(strings.Repeat("t", pad))}
		} else {
			m = &wamp.Subscribe{Request: wamp.ID(id), Options: wamp.Dict{}, Topic: wamp.URI(strings.Repeat("t", pad))}
		}
		var err error
		b, err = ser.Serialize(m)
		if err != nil {
			panic(err)
		}
		if len(b) == n {
			return b
		}
		pad += n - len(b)
	}
	return b // (a size no padding reaches exactly: the caller logs the real size)
}

func (x *wireExec) clientReader(c net.Conn) {
	tmp := make([]byte, 1<<16)
	for {
		n, err := c.Read(tmp)
		x.mu.Lock()
		x.buf = append(x.buf, tmp[:n]...)
		if err != nil {
			x.eof = true
			x.mu.Unlock()
			return
		}
		x.mu.Unlock()
	}
}

func (x *wireExec) routerReader(p wamp.Peer) {
	for m := range p.Recv() {
		id := -1 // something that is not a message the harness sent
		if s, ok := m.(*wamp.Subscribe); ok && s != nil {
			id = int(s.Request)
		}
		x.mu.Lock()
		x.delivered = append(x.delivered, id)
		x.mu.Unlock()
	}
}

// frames parses complete frames out of what the client has read.
func (x *wireExec) frames() []WireFrame {
	out := []WireFrame{}
	for len(x.buf) >= 4 {
		n := int(x.buf[1])<<16 | int(x.buf[2])<<8 | int(x.buf[3])
		if len(x.buf) < 4+n {
			break
		}
		typ := int(x.buf[0] & 7)
		payload := x.buf[4 : 4+n]
		f := WireFrame{Type: typ, Len: n, ID: -1}
		switch typ {
		case 0:
			if m, err := x.ser.Deserialize(payload); err == nil {
				if p, ok := m.(*wamp.Publish); ok {
					f.ID = int(p.Request)
				}
			}
		case 2:
			f.ID = pingID(payload)
		}
		out = append(out, f)
		x.buf = x.buf[4+n:]
	}
	return out
}

func pingPayload(id, n int) []byte {
	b := make([]byte, n)
	for i := range b {
		b[i] = byte(id + i)
	}
	return b
}

// pingID recovers the id a PING payload was built from (-1 if it was altered;
// an empty payload carries no id: 0).
func pingID(b []byte) int {
	if len(b) == 0 {
		return 0
	}
	for i := range b {
		if b[i] != byte(int(b[0])+i) {
			return -1
		}
	}
	return int(b[0])
}

func (x *wireExec) run(sc *WireScenario) {
	x.buf, x.eof, x.delivered, x.hsDone = nil, false, nil, false
	cconn, sconn := net.Pipe()
	type res struct {
		p   wamp.Peer
		err error
	}
	accepted := make(chan res, 1)
	go func() {
		p, err := transport.AcceptRawSocket(sconn, discardLog, sc.Limit, 16)
		accepted <- res{p, err}
	}()
	go x.clientReader(cconn)
	var peer wamp.Peer
	emit := func(ev WireEvent) {
		if ev.Reply == nil {
			ev.Reply = []any{}
		}
		if ev.Frames == nil {
			ev.Frames = []WireFrame{}
		}
		if ev.Delivered == nil {
			ev.Delivered = []int{}
		}
		if err := x.enc.Encode(ev); err != nil {
			panic(err)
		}
	}
	emit(WireEvent{Ev: "reset", Scn: sc.ID, Limit: sc.Limit})
	wasClosed := false
	for _, in := range sc.Steps {
		ev := WireEvent{Ev: "step", Scn: sc.ID, In: in}
		switch in.Op {
		case "hs":
			b := []byte{0x7f, byte(in.Lenn<<4 | in.Sern), 0, 0}
			if !in.Magic {
				b[0] = 0x7e
			}
			if !in.Rsv {
				b[3] = 1
			}
			_, _ = cconn.Write(b)
			synctest.Wait()
			select {
			case r := <-accepted:
				if r.err == nil {
					peer = r.p
					go x.routerReader(peer)
				}
			default:
			}
			x.mu.Lock()
			if len(x.buf) >= 4 {
				rep := x.buf[:4]
				if rep[1]&0xf == 0 {
					ev.Reply = []any{"error", int(rep[1] >> 4)}
				} else {
					ev.Reply = []any{"ok", int(rep[1] >> 4), int(rep[1] & 0xf)}
				}
				x.buf = x.buf[4:]
			}
			x.mu.Unlock()
			x.ser = serializerFor(map[int]string{1: "json", 2: "msgpack", 3: "cbor"}[in.Sern])
		case "frame":
			var payload []byte
			switch in.Body {
			case "msg":
				if in.Type == 0 {
					payload = sized(x.ser, in.Len, in.ID, false)
					ev.In.Len = len(payload)
					in.Len = len(payload)
				} else {
					payload = pingPayload(in.ID, in.Len)
				}
			case "long", "kind":
				if in.Type == 0 {
					// a list that resembles a SUBSCRIBE: one element too many / a request id of the wrong kind
					var item any = []any{32, in.ID, map[string]any{}, "t.t", "extra"}
					if in.Body == "kind" {
						item = []any{32, "not-a-number", map[string]any{}, "t.t"}
					}
					var err error
					payload, err = x.ser.SerializeDataItem(item)
					if err != nil {
						panic(err)
					}
					ev.In.Len = len(payload)
					in.Len = len(payload)
				} else {
					payload = pingPayload(in.ID, in.Len)
				}
			case "junk":
				if in.Type == 0 {
					payload = []byte(strings.Repeat("\xc1", in.Len))
				} else {
					payload = pingPayload(in.ID, in.Len)
				}
			case "short":
				k := in.Len - 1
				if k > 3 {
					k = 3
				}
				payload = pingPayload(in.ID, k)
			}
			hdr := []byte{byte(in.Type), byte(in.Len >> 16), byte(in.Len >> 8), byte(in.Len)}
			if in.Split {
				_, _ = cconn.Write(hdr)
				if len(payload) > 0 {
					_, _ = cconn.Write(payload)
				}
			} else {
				_, _ = cconn.Write(append(hdr, payload...))
			}
			if in.Body == "short" {
				synctest.Wait()
				_ = cconn.Close()
			}
		case "send":
			if peer != nil {
				b := sized(x.ser, in.N, in.ID, true)
				ev.In.N = len(b)
				m, err := x.ser.Deserialize(b)
				if err != nil {
					panic(err)
				}
				func() {
					defer func() { _ = recover() }()
					select {
					case peer.Send() <- m:
					default:
					}
				}()
			}
		case "eof":
			_ = cconn.Close()
		case "nop":
		}
		synctest.Wait()
		x.mu.Lock()
		if in.Op != "hs" || len(ev.Reply) > 0 || true {
			if x.ser != nil && (in.Op != "hs") {
				ev.Frames = x.frames()
			}
		}
		ev.Delivered = x.delivered
		x.delivered = nil
		ev.Closed = x.eof && !wasClosed
		if x.eof {
			wasClosed = true
		}
		x.mu.Unlock()
		emit(ev)
	}
	_ = cconn.Close()
	synctest.Wait()
	if peer == nil {
		select {
		case r := <-accepted:
			peer = r.p
		default:
		}
	}
	if peer != nil {
		func() {
			defer func() { _ = recover() }()
			peer.Close()
		}()
	}
	_ = sconn.Close()
	synctest.Wait()
}

// TestWireExec runs the wire scenarios of $VERIF_SCN (same protocol as TestExec).
func TestWireExec(t *testing.T) {
	scnFile := os.Getenv("VERIF_SCN")
	outFile := os.Getenv("VERIF_OUT")
	if scnFile == "" || outFile == "" {
		t.Skip("VERIF_SCN/VERIF_OUT not set")
	}
	skip, _ := strconv.Atoi(os.Getenv("VERIF_SKIP"))
	in, err := os.Open(scnFile)
	if err != nil {
		t.Fatal(err)
	}
	defer in.Close()
	out, err := os.OpenFile(outFile, os.O_CREATE|os.O_WRONLY|os.O_APPEND, 0o644)
	if err != nil {
		t.Fatal(err)
	}
	defer out.Close()
	w := bufio.NewWriter(out)
	defer w.Flush()
	x := &wireExec{enc: json.NewEncoder(w)}
	sc := bufio.NewScanner(in)
	sc.Buffer(make([]byte, 1<<20), 1<<26)
	idx := 0
	for sc.Scan() {
		line := sc.Bytes()
		if len(line) == 0 {
			continue
		}
		idx++
		if idx <= skip {
			continue
		}
		var s WireScenario
		if err := json.Unmarshal(line, &s); err != nil {
			t.Fatalf("scenario %d: %v", idx, err)
		}
		w.Flush()
		_ = os.WriteFile(outFile+".progress", []byte(strconv.Itoa(idx)+" "+s.ID+"\n"), 0o644)
		stop := watchdog(s.ID)
		synctest.Test(t, func(t *testing.T) {
			x.run(&s)
		})
		close(stop)
		w.Flush()
	}
	_ = os.WriteFile(outFile+".progress", []byte("done\n"), 0o644)
}
