package harness

import (
	"bufio"
	"context"
	"encoding/json"
	"io"
	"net"
	"os"
	"runtime"
	"strconv"
	"strings"
	"sync"
	"testing"
	"testing/synctest"
	"time"

	"github.com/gammazero/nexus/v3/transport"
	"github.com/gammazero/nexus/v3/transport/serialize"
	"github.com/gammazero/nexus/v3/wamp"
)

// Octet-level rawsocket scenarios (C15, and the byte level part of C04): the
// harness is a raw client writing octets into one end of a pipe; the other end
// is handed to transport.AcceptRawSocket. Everything observable is logged for
// validation against spec/Wire.tla (TraceWire.tla).

type WireInput struct {
	Op    string `json:"op"`
	Magic bool   `json:"magic"`
	Lenn  int    `json:"lenn"`
	Sern  int    `json:"sern"`
	Rsv   bool   `json:"rsv"`
	Type  int    `json:"type"`
	Len   int    `json:"len"`
	Body  string `json:"body"`
	ID    int    `json:"id"`
	N     int    `json:"n"`
	Split bool   `json:"split"`
	// op "race" (spec/WireConc.tla): Msgs messages of N octets are handed to the peer while Pings
	// PINGs (payload length Len) are answered; Sched = the order in which the write calls of the
	// two goroutines are granted ('s' sendHandler, 'r' recvHandler), as far as they are waiting
	Msgs  int    `json:"msgs"`
	Pings int    `json:"pings"`
	Sched string `json:"sched"`
}

type WireScenario struct {
	ID    string      `json:"id"`
	Limit int         `json:"limit"`
	Steps []WireInput `json:"steps"`
	// Real: run in real time on a gated connection (write calls of the peer's goroutines are
	// granted one at a time); without it: virtual time, quiescence by synctest.Wait
	Real bool `json:"real"`
	// Role "client": the nexus side connects (transport.ConnectRawSocketPeer, serializer Ser, receive
	// limit Limit) to a listener of the harness, which plays the server octet by octet (always Real)
	Role string `json:"role"`
	Ser  int    `json:"ser"`
}

type WireFrame struct {
	Type int `json:"type"`
	Len  int `json:"len"`
	ID   int `json:"id"`
}

type WireEvent struct {
	Ev        string      `json:"ev"`
	Scn       string      `json:"scn"`
	Limit     int         `json:"limit"`
	Role      string      `json:"role"`
	Ser       int         `json:"ser"`
	In        WireInput   `json:"in"`
	Reply     []any       `json:"reply"`
	Frames    []WireFrame `json:"frames"`
	Delivered []int       `json:"delivered"`
	Closed    bool        `json:"closed"`
}

type wireExec struct {
	enc    *json.Encoder
	real   bool
	gaveUp bool // a real-time step of this scenario ran into its cap

	mu        sync.Mutex
	buf       []byte // octets the client has read and not yet parsed
	eof       bool
	delivered []int
	ser       serialize.Serializer
	hsDone    bool
	parsed    []WireFrame // frames parsed so far in this step (real-time scenarios)
	rdClosed  bool        // the peer closed its Recv channel
}

// gatedConn is the connection handed to AcceptRawSocket in real-time scenarios: while the
// gate is on, every Write call of the peer's send and receive goroutines waits until the
// harness grants it (a scheduler for the writers of spec/WireConc.tla).
type gatedConn struct {
	net.Conn
	mu      sync.Mutex
	on      bool
	waiting []*gatedWrite
}

type gatedWrite struct {
	who  byte // 's' sendHandler, 'r' recvHandler
	n    int
	done chan struct{}
}

func writerRole() byte {
	pc := make([]uintptr, 24)
	n := runtime.Callers(3, pc)
	fr := runtime.CallersFrames(pc[:n])
	for {
		f, more := fr.Next()
		if strings.Contains(f.Function, "recvHandler") {
			return 'r'
		}
		if strings.Contains(f.Function, "sendHandler") {
			return 's'
		}
		if !more {
			return '?'
		}
	}
}

func (g *gatedConn) Write(b []byte) (int, error) {
	who := writerRole()
	g.mu.Lock()
	if !g.on || who == '?' {
		g.mu.Unlock()
		return g.Conn.Write(b)
	}
	w := &gatedWrite{who: who, n: len(b), done: make(chan struct{})}
	g.waiting = append(g.waiting, w)
	g.mu.Unlock()
	<-w.done
	return g.Conn.Write(b)
}

// grant lets one waiting write proceed: the one of the wanted writer if it waits, else any.
func (g *gatedConn) grant(want byte) (byte, bool) {
	g.mu.Lock()
	defer g.mu.Unlock()
	if len(g.waiting) == 0 {
		return 0, false
	}
	k := 0
	for i, w := range g.waiting {
		if w.who == want {
			k = i
			break
		}
	}
	w := g.waiting[k]
	g.waiting = append(g.waiting[:k], g.waiting[k+1:]...)
	close(w.done)
	return w.who, true
}

func (g *gatedConn) nwaiting() int {
	g.mu.Lock()
	defer g.mu.Unlock()
	return len(g.waiting)
}

func (g *gatedConn) open() {
	g.mu.Lock()
	g.on = false
	for _, w := range g.waiting {
		close(w.done)
	}
	g.waiting = nil
	g.mu.Unlock()
}

var gaveUpTotal int // real-time scenarios of this run that ran into the cap

// wait = quiescence: every goroutine of the bubble durably blocked (virtual time), or, in a
// real-time scenario, until cond holds (at most a few seconds: only a faulty peer makes it wait)
func (x *wireExec) wait(cond func() bool) {
	if !x.real {
		synctest.Wait()
		return
	}
	// (once a step of a scenario has run into the cap the scenario is lost - its observations are
	// incomplete and the trace will be rejected; the remaining steps need not wait that long again)
	cap := 8 * time.Second
	if gaveUpTotal >= 5 {
		// (and once several scenarios of a run are lost the peer is faulty: its verdict is in, be brief)
		cap = time.Second
	}
	if x.gaveUp {
		cap = 100 * time.Millisecond
	}
	deadline := time.Now().Add(cap)
	for !cond() {
		if !time.Now().Before(deadline) {
			if !x.gaveUp {
				gaveUpTotal++
			}
			x.gaveUp = true
			return
		}
		time.Sleep(time.Millisecond)
	}
}

func (x *wireExec) nbuf() int {
	x.mu.Lock()
	defer x.mu.Unlock()
	return len(x.buf)
}

func (x *wireExec) ndelivered() int {
	x.mu.Lock()
	defer x.mu.Unlock()
	return len(x.delivered)
}

func (x *wireExec) sawEOF() bool {
	x.mu.Lock()
	defer x.mu.Unlock()
	return x.eof
}

const (
	markerID   = 900000 // request ids of marker messages (both directions)
	markerPing = 0xEE   // tag of the marker PING's payload
	markerLen  = 7
)

// syncMarkers ends a step of a real-time scenario: a marker message is handed to the peer, a
// marker message and a marker PING are written to it; the connection is FIFO in both directions
// and each goroutine of the peer works sequentially, so once all three came back everything the
// step caused has been observed - or the connection has ended.
func (x *wireExec) syncMarkers(cconn net.Conn, peer wamp.Peer, k int) {
	if cconn == nil {
		return
	}
	if peer == nil {
		x.wait(x.sawEOF)
		return
	}
	if !x.sawEOF() {
		b := sized(x.ser, 60, markerID+k, true)
		if m, err := x.ser.Deserialize(b); err == nil {
			func() {
				defer func() { _ = recover() }()
				select {
				case peer.Send() <- m:
				case <-time.After(2 * time.Second):
				}
			}()
		}
		sub := sized(x.ser, 60, markerID+k, false)
		_, _ = cconn.Write(append([]byte{0, 0, 0, byte(len(sub))}, sub...))
		_, _ = cconn.Write(append([]byte{1, 0, 0, markerLen}, pingPayload(markerPing, markerLen)...))
	}
	x.wait(func() bool {
		x.mu.Lock()
		defer x.mu.Unlock()
		if x.eof && x.rdClosed {
			return true
		}
		x.parsed = append(x.parsed, x.frames()...)
		gotPub, gotPong, gotSub := false, false, false
		for _, f := range x.parsed {
			if f.Type == 0 && f.ID == markerID+k {
				gotPub = true
			}
			if f.Type == 2 && f.Len == markerLen && f.ID == markerPing {
				gotPong = true
			}
		}
		for _, d := range x.delivered {
			if d == markerID+k {
				gotSub = true
			}
		}
		return gotPub && gotPong && gotSub
	})
}

// withoutMarkers removes what syncMarkers added to the observations.
func withoutMarkers(fr []WireFrame, del []int) ([]WireFrame, []int) {
	f2 := []WireFrame{}
	for _, f := range fr {
		if (f.Type == 0 && f.ID >= markerID) || (f.Type == 2 && f.Len == markerLen && f.ID == markerPing) {
			continue
		}
		f2 = append(f2, f)
	}
	d2 := []int{}
	for _, d := range del {
		if d < markerID {
			d2 = append(d2, d)
		}
	}
	return f2, d2
}

// sized builds a message whose encoding has exactly n octets (publish = router
// to client direction uses PUBLISH, the other SUBSCRIBE; both carry id).
func sized(ser serialize.Serializer, n, id int, publish bool) []byte {
	pad := n
	var b []byte
	for i := 0; i < 12; i++ {
		if pad < 1 {
			pad = 1
		}
		var m wamp.Message
		if publish {
			m = &wamp.Publish{Request: wamp.ID(id), Options: wamp.Dict{}, Topic: wamp.URI(strings.Repeat("t", pad))}
		} else {
			m = &wamp.Subscribe{Request: wamp.ID(id), Options: wamp.Dict{}, Topic: wamp.URI(strings.Repeat("t", pad))}
		}
		var err error
		b, err = ser.Serialize(m)
		if err != nil {
			panic(err)
		}
		if len(b) == n {
			return b
		}
		pad += n - len(b)
	}
	return b // (a size no padding reaches exactly: the caller logs the real size)
}

func (x *wireExec) clientReader(c net.Conn) {
	tmp := make([]byte, 1<<16)
	for {
		n, err := c.Read(tmp)
		x.mu.Lock()
		x.buf = append(x.buf, tmp[:n]...)
		if err != nil {
			x.eof = true
			x.mu.Unlock()
			return
		}
		x.mu.Unlock()
	}
}

func (x *wireExec) routerReader(p wamp.Peer) {
	for m := range p.Recv() {
		id := -1 // something that is not a message the harness sent
		if s, ok := m.(*wamp.Subscribe); ok && s != nil {
			id = int(s.Request)
		}
		x.mu.Lock()
		x.delivered = append(x.delivered, id)
		x.mu.Unlock()
	}
	x.mu.Lock()
	x.rdClosed = true
	x.mu.Unlock()
}

// frames parses complete frames out of what the client has read.
func (x *wireExec) frames() []WireFrame {
	out := []WireFrame{}
	for len(x.buf) >= 4 {
		n := int(x.buf[1])<<16 | int(x.buf[2])<<8 | int(x.buf[3])
		if len(x.buf) < 4+n {
			break
		}
		typ := int(x.buf[0] & 7)
		payload := x.buf[4 : 4+n]
		f := WireFrame{Type: typ, Len: n, ID: -1}
		switch typ {
		case 0:
			if m, err := x.ser.Deserialize(payload); err == nil {
				if p, ok := m.(*wamp.Publish); ok {
					f.ID = int(p.Request)
				}
			}
		case 2:
			f.ID = pingID(payload)
		}
		out = append(out, f)
		x.buf = x.buf[4+n:]
	}
	return out
}

func pingPayload(id, n int) []byte {
	b := make([]byte, n)
	for i := range b {
		b[i] = byte(id + i)
	}
	return b
}

// pingID recovers the id a PING payload was built from (-1 if it was altered;
// an empty payload carries no id: 0).
func pingID(b []byte) int {
	if len(b) == 0 {
		return 0
	}
	for i := range b {
		if b[i] != byte(int(b[0])+i) {
			return -1
		}
	}
	return int(b[0])
}

func (x *wireExec) run(sc *WireScenario) {
	x.buf, x.eof, x.delivered, x.hsDone, x.parsed, x.rdClosed, x.gaveUp = nil, false, nil, false, nil, false, false
	x.real = sc.Real || sc.Role == "client"
	type res struct {
		p   wamp.Peer
		err error
	}
	accepted := make(chan res, 1)
	var cconn net.Conn // the harness end of the connection
	var sconn net.Conn // the end handed to the peer (server role)
	gate := &gatedConn{}
	var ln net.Listener
	if sc.Role == "client" {
		var err error
		if ln, err = net.Listen("tcp", "127.0.0.1:0"); err != nil {
			panic(err)
		}
		defer ln.Close()
	} else {
		var pconn net.Conn
		cconn, pconn = net.Pipe()
		gate.Conn = pconn
		sconn = pconn
		if sc.Real {
			sconn = gate
		}
		go func() {
			p, err := transport.AcceptRawSocket(sconn, discardLog, sc.Limit, 16)
			accepted <- res{p, err}
		}()
		go x.clientReader(cconn)
	}
	var peer wamp.Peer
	emit := func(ev WireEvent) {
		if ev.Reply == nil {
			ev.Reply = []any{}
		}
		if ev.Frames == nil {
			ev.Frames = []WireFrame{}
		}
		if ev.Delivered == nil {
			ev.Delivered = []int{}
		}
		if err := x.enc.Encode(ev); err != nil {
			panic(err)
		}
	}
	emit(WireEvent{Ev: "reset", Scn: sc.ID, Limit: sc.Limit, Role: sc.Role, Ser: sc.Ser})
	wasClosed := false
	for k, in := range sc.Steps {
		ev := WireEvent{Ev: "step", Scn: sc.ID, In: in}
		switch in.Op {
		case "chs":
			// the nexus side connects; the harness is the server: it reads the four octets of the
			// client and answers with magic / length nibble / serializer nibble (or hangs up)
			x.ser = serializerFor(map[int]string{1: "json", 2: "msgpack", 3: "cbor"}[sc.Ser])
			go func() {
				ctx, cancel := context.WithTimeout(context.Background(), 40*time.Second)
				defer cancel()
				p, err := transport.ConnectRawSocketPeer(ctx, "tcp", ln.Addr().String(),
					map[int]serialize.Serialization{1: serialize.JSON, 2: serialize.MSGPACK, 3: serialize.CBOR}[sc.Ser], nil, discardLog, sc.Limit)
				accepted <- res{p, err}
			}()
			_ = ln.(*net.TCPListener).SetDeadline(time.Now().Add(20 * time.Second))
			c, err := ln.Accept()
			if err != nil {
				panic("the connecting side never arrived: " + err.Error())
			}
			cconn = c
			var hello [4]byte
			_ = c.SetReadDeadline(time.Now().Add(20 * time.Second))
			_, herr := io.ReadFull(c, hello[:])
			_ = c.SetReadDeadline(time.Time{})
			if in.Body == "eof" {
				_ = c.Close()
			} else {
				b := []byte{0x7f, byte(in.Lenn<<4 | in.Sern), 0, 0}
				if !in.Magic {
					b[0] = 0x7e
				}
				_, _ = c.Write(b)
			}
			outcome := "error"
			select {
			case r := <-accepted:
				if r.err == nil {
					outcome = "ok"
					peer = r.p
					go x.routerReader(peer)
				}
			case <-time.After(20 * time.Second):
				outcome = "hang"
			}
			if herr != nil || hello[0] != 0x7f || hello[2] != 0 || hello[3] != 0 {
				outcome = "badhello"
			}
			ev.Reply = []any{outcome, int(hello[1] >> 4), int(hello[1] & 0xf)}
			go x.clientReader(c)
		case "hs":
			b := []byte{0x7f, byte(in.Lenn<<4 | in.Sern), 0, 0}
			if !in.Magic {
				b[0] = 0x7e
			}
			if !in.Rsv {
				b[3] = 1
			}
			_, _ = cconn.Write(b)
			if x.real {
				select {
				case r := <-accepted:
					accepted <- r
				case <-time.After(4 * time.Second):
				}
			}
			x.wait(func() bool { return x.nbuf() >= 4 || x.sawEOF() })
			select {
			case r := <-accepted:
				if r.err == nil {
					peer = r.p
					go x.routerReader(peer)
				}
			default:
			}
			x.mu.Lock()
			if len(x.buf) >= 4 {
				rep := x.buf[:4]
				if rep[1]&0xf == 0 {
					ev.Reply = []any{"error", int(rep[1] >> 4)}
				} else {
					ev.Reply = []any{"ok", int(rep[1] >> 4), int(rep[1] & 0xf)}
				}
				x.buf = x.buf[4:]
			}
			x.mu.Unlock()
			x.ser = serializerFor(map[int]string{1: "json", 2: "msgpack", 3: "cbor"}[in.Sern])
		case "frame":
			var payload []byte
			switch in.Body {
			case "msg":
				if in.Type == 0 {
					payload = sized(x.ser, in.Len, in.ID, false)
					ev.In.Len = len(payload)
					in.Len = len(payload)
				} else {
					payload = pingPayload(in.ID, in.Len)
				}
			case "long", "kind":
				if in.Type == 0 {
					// a list that resembles a SUBSCRIBE: one element too many / a request id of the wrong kind
					var item any = []any{32, in.ID, map[string]any{}, "t.t", "extra"}
					if in.Body == "kind" {
						item = []any{32, "not-a-number", map[string]any{}, "t.t"}
					}
					var err error
					payload, err = x.ser.SerializeDataItem(item)
					if err != nil {
						panic(err)
					}
					ev.In.Len = len(payload)
					in.Len = len(payload)
				} else {
					payload = pingPayload(in.ID, in.Len)
				}
			case "junk":
				if in.Type == 0 {
					payload = []byte(strings.Repeat("\xc1", in.Len))
				} else {
					payload = pingPayload(in.ID, in.Len)
				}
			case "short":
				k := in.Len - 1
				if k > 3 {
					k = 3
				}
				payload = pingPayload(in.ID, k)
			}
			hdr := []byte{byte(in.Type), byte(in.Len >> 16), byte(in.Len >> 8), byte(in.Len)}
			if in.Split {
				_, _ = cconn.Write(hdr)
				if len(payload) > 0 {
					_, _ = cconn.Write(payload)
				}
			} else {
				_, _ = cconn.Write(append(hdr, payload...))
			}
			if in.Body == "short" {
				if !x.real {
					synctest.Wait()
				}
				_ = cconn.Close()
			}
		case "send":
			if peer != nil {
				b := sized(x.ser, in.N, in.ID, true)
				ev.In.N = len(b)
				m, err := x.ser.Deserialize(b)
				if err != nil {
					panic(err)
				}
				func() {
					defer func() { _ = recover() }()
					select {
					case peer.Send() <- m:
					default:
					}
				}()
			}
		case "race":
			if peer == nil || !x.real {
				break
			}
			gate.mu.Lock()
			gate.on = true
			gate.mu.Unlock()
			go func() {
				for k := 0; k < in.Pings; k++ {
					payload := pingPayload(in.ID+100+k, in.Len)
					hdr := []byte{1, byte(in.Len >> 16), byte(in.Len >> 8), byte(in.Len)}
					if _, err := cconn.Write(append(hdr, payload...)); err != nil {
						return
					}
				}
			}()
			for k := 0; k < in.Msgs; k++ {
				b := sized(x.ser, in.N, in.ID+k, true)
				m, err := x.ser.Deserialize(b)
				if err != nil {
					panic(err)
				}
				peer.Send() <- m
			}
			// grant the write calls one at a time, in the order of the schedule as far as possible
			pos, idle := 0, 0
			for idle < 40 {
				// (a writer that has not arrived at the gate yet gets a moment to do so)
				settle := 0
				for last := -1; settle < 5; {
					n := gate.nwaiting()
					if n == last {
						settle++
					} else {
						settle, last = 0, n
					}
					time.Sleep(200 * time.Microsecond)
				}
				var want byte
				if pos < len(in.Sched) {
					want = in.Sched[pos]
				}
				if _, ok := gate.grant(want); ok {
					pos++
					idle = 0
				} else {
					idle++
				}
			}
			gate.open()
		case "eof":
			if cconn != nil {
				_ = cconn.Close()
			}
		case "nop":
		}
		if !x.real {
			synctest.Wait()
		} else if in.Op != "hs" {
			x.syncMarkers(cconn, peer, k)
		}
		x.mu.Lock()
		if x.ser != nil && in.Op != "hs" && in.Op != "chs" {
			ev.Frames = append(x.parsed, x.frames()...)
		} else if x.ser != nil && in.Op == "chs" {
			_ = x.frames() // (the markers of the connecting step)
		}
		// what was parsed belongs to this step only: a marker of an earlier step must never end a later one
		x.parsed = nil
		ev.Delivered = x.delivered
		x.delivered = nil
		if x.real {
			ev.Frames, ev.Delivered = withoutMarkers(ev.Frames, ev.Delivered)
		}
		ev.Closed = x.eof && !wasClosed
		if x.eof {
			wasClosed = true
		}
		x.mu.Unlock()
		emit(ev)
	}
	if cconn != nil {
		_ = cconn.Close()
	}
	gate.open()
	if cconn != nil {
		x.wait(x.sawEOF)
	}
	if peer == nil {
		select {
		case r := <-accepted:
			peer = r.p
		default:
		}
	}
	if peer != nil {
		func() {
			defer func() { _ = recover() }()
			peer.Close()
		}()
	}
	if sconn != nil {
		_ = sconn.Close()
	}
	x.wait(func() bool { return true })
}

// TestWireExec runs the wire scenarios of $VERIF_SCN (same protocol as TestExec).
func TestWireExec(t *testing.T) {
	scnFile := os.Getenv("VERIF_SCN")
	outFile := os.Getenv("VERIF_OUT")
	if scnFile == "" || outFile == "" {
		t.Skip("VERIF_SCN/VERIF_OUT not set")
	}
	skip, _ := strconv.Atoi(os.Getenv("VERIF_SKIP"))
	in, err := os.Open(scnFile)
	if err != nil {
		t.Fatal(err)
	}
	defer in.Close()
	out, err := os.OpenFile(outFile, os.O_CREATE|os.O_WRONLY|os.O_APPEND, 0o644)
	if err != nil {
		t.Fatal(err)
	}
	defer out.Close()
	w := bufio.NewWriter(out)
	defer w.Flush()
	x := &wireExec{enc: json.NewEncoder(w)}
	sc := bufio.NewScanner(in)
	sc.Buffer(make([]byte, 1<<20), 1<<26)
	idx := 0
	for sc.Scan() {
		line := sc.Bytes()
		if len(line) == 0 {
			continue
		}
		idx++
		if idx <= skip {
			continue
		}
		var s WireScenario
		if err := json.Unmarshal(line, &s); err != nil {
			t.Fatalf("scenario %d: %v", idx, err)
		}
		w.Flush()
		_ = os.WriteFile(outFile+".progress", []byte(strconv.Itoa(idx)+" "+s.ID+"\n"), 0o644)
		stop := watchdog(s.ID)
		if s.Real || s.Role == "client" {
			x.run(&s)
		} else {
			synctest.Test(t, func(t *testing.T) {
				x.run(&s)
			})
		}
		close(stop)
		w.Flush()
	}
	_ = os.WriteFile(outFile+".progress", []byte("done\n"), 0o644)
}
