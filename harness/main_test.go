package harness

import (
	"bufio"
	"encoding/json"
	"os"
	"strconv"
	"testing"
	"testing/synctest"
)

// TestExec runs the router scenarios of $VERIF_SCN (ndjson, one scenario per
// line) and appends trace events to $VERIF_OUT. $VERIF_SKIP scenarios are
// skipped (used to continue after a crashed worker). Before each scenario its
// index is written to $VERIF_OUT.progress so that a crash can be attributed.
func TestExec(t *testing.T) {
	scnFile := os.Getenv("VERIF_SCN")
	outFile := os.Getenv("VERIF_OUT")
	if scnFile == "" || outFile == "" {
		t.Skip("VERIF_SCN/VERIF_OUT not set")
	}
	skip, _ := strconv.Atoi(os.Getenv("VERIF_SKIP"))
	in, err := os.Open(scnFile)
	if err != nil {
		t.Fatal(err)
	}
	defer in.Close()
	out, err := os.OpenFile(outFile, os.O_CREATE|os.O_WRONLY|os.O_APPEND, 0o644)
	if err != nil {
		t.Fatal(err)
	}
	defer out.Close()
	w := bufio.NewWriter(out)
	defer w.Flush()
	x := NewExec(w)
	sc := bufio.NewScanner(in)
	sc.Buffer(make([]byte, 1<<20), 1<<26)
	idx := 0
	for sc.Scan() {
		line := sc.Bytes()
		if len(line) == 0 {
			continue
		}
		idx++
		if idx <= skip {
			continue
		}
		var s Scenario
		if err := json.Unmarshal(line, &s); err != nil {
			t.Fatalf("scenario %d: %v", idx, err)
		}
		w.Flush()
		_ = os.WriteFile(outFile+".progress", []byte(strconv.Itoa(idx)+" "+s.ID+"\n"), 0o644)
		synctest.Test(t, func(t *testing.T) {
			x.RunScenario(&s)
		})
		w.Flush()
	}
	_ = os.WriteFile(outFile+".progress", []byte("done\n"), 0o644)
}
