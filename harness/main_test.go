package harness

import (
	"bufio"
	"encoding/json"
	"fmt"
	"os"
	"runtime"
	"strconv"
	"testing"
	"testing/synctest"
	"time"
)

// watchdog ends the worker when one scenario does not finish within a wall
// clock budget four orders of magnitude above what a scenario takes: inside a
// bubble a goroutine blocked on a mutex (not a channel) keeps virtual time from
// advancing, so a wedged router or client shows up as a scenario that never
// ends. The goroutine dump goes to stderr; the driver attributes the death of
// the worker to the scenario.
func watchdog(id string) chan struct{} {
	stop := make(chan struct{})
	budget := 45 * time.Second
	if v, err := strconv.Atoi(os.Getenv("VERIF_WALL_S")); err == nil && v > 0 {
		budget = time.Duration(v) * time.Second
	}
	go func() {
		select {
		case <-stop:
		case <-time.After(budget):
			buf := make([]byte, 1<<20)
			buf = buf[:runtime.Stack(buf, true)]
			fmt.Fprintf(os.Stderr, "fatal error: verif watchdog: scenario %s did not finish within %s (goroutines wedged)\n\n%s\n", id, budget, buf)
			os.Exit(3)
		}
	}()
	return stop
}

// TestExec runs the router scenarios of $VERIF_SCN (ndjson, one scenario per
// line) and appends trace events to $VERIF_OUT. $VERIF_SKIP scenarios are
// skipped (used to continue after a crashed worker). Before each scenario its
// index is written to $VERIF_OUT.progress so that a crash can be attributed.
func TestExec(t *testing.T) {
	scnFile := os.Getenv("VERIF_SCN")
	outFile := os.Getenv("VERIF_OUT")
	if scnFile == "" || outFile == "" {
		t.Skip("VERIF_SCN/VERIF_OUT not set")
	}
	skip, _ := strconv.Atoi(os.Getenv("VERIF_SKIP"))
	in, err := os.Open(scnFile)
	if err != nil {
		t.Fatal(err)
	}
	defer in.Close()
	out, err := os.OpenFile(outFile, os.O_CREATE|os.O_WRONLY|os.O_APPEND, 0o644)
	if err != nil {
		t.Fatal(err)
	}
	defer out.Close()
	w := bufio.NewWriter(out)
	defer w.Flush()
	x := NewExec(w)
	sc := bufio.NewScanner(in)
	sc.Buffer(make([]byte, 1<<20), 1<<26)
	idx := 0
	for sc.Scan() {
		line := sc.Bytes()
		if len(line) == 0 {
			continue
		}
		idx++
		if idx <= skip {
			continue
		}
		var s Scenario
		if err := json.Unmarshal(line, &s); err != nil {
			t.Fatalf("scenario %d: %v", idx, err)
		}
		w.Flush()
		_ = os.WriteFile(outFile+".progress", []byte(strconv.Itoa(idx)+" "+s.ID+"\n"), 0o644)
		stop := watchdog(s.ID)
		synctest.Test(t, func(t *testing.T) {
			x.RunScenario(&s)
		})
		close(stop)
		w.Flush()
	}
	_ = os.WriteFile(outFile+".progress", []byte("done\n"), 0o644)
}
