package harness

import (
	"bytes"
	"crypto/sha256"
	"encoding/hex"
	"encoding/json"
	"errors"
	"fmt"
	"io"
	"log"
	"os"
	"runtime"
	"sort"
	"strconv"
	"strings"
	"sync"
	"testing/synctest"
	"time"

	"github.com/gammazero/nexus/v3/router"
	"github.com/gammazero/nexus/v3/router/auth"
	"github.com/gammazero/nexus/v3/transport"
	"github.com/gammazero/nexus/v3/wamp"
	"github.com/gammazero/nexus/v3/wamp/crsign"
	"golang.org/x/crypto/nacl/sign"
)

func realmName(i int) wamp.URI { return wamp.URI("verif.realm" + strconv.Itoa(i)) }

// ---------------------------------------------------------------------------
// key store for the ticket authenticator used by "remote" sessions

type keyStore struct{ users map[string]string }

func (k *keyStore) AuthKey(authid, authmethod string) ([]byte, error) {
	if _, ok := k.users[authid]; !ok {
		return nil, errors.New("no such user")
	}
	switch authmethod {
	case "wampcra":
		return []byte("cra-" + authid), nil
	case "cryptosign":
		pub, _ := signKeys(authid)
		return pub[:], nil
	}
	return []byte("tkt-" + authid), nil
}

// signKeys derives the cryptosign key pair of a user deterministically.
func signKeys(authid string) (*[32]byte, *[64]byte) {
	seed := sha256.Sum256([]byte("verif-cryptosign-" + authid))
	pub, priv, err := sign.GenerateKey(bytes.NewReader(seed[:]))
	if err != nil {
		panic(err)
	}
	return pub, priv
}
func (k *keyStore) PasswordInfo(string) (string, int, int) { return "", 0, 0 }
func (k *keyStore) AuthRole(authid string) (string, error) {
	r, ok := k.users[authid]
	if !ok {
		return "", errors.New("no such user")
	}
	return r, nil
}
func (k *keyStore) Provider() string { return "static" }

// remotePeer makes a linked peer look like a network peer to the router.
type remotePeer struct{ wamp.Peer }

func (remotePeer) IsLocal() bool { return false }

// ---------------------------------------------------------------------------

type stamped struct {
	m wamp.Message // nil = transport closed by the router
	t int
}

type subInfo struct {
	topic string
	match string
}

type peer struct {
	name    string
	cli     wamp.Peer
	sendq   chan wamp.Message
	stall   chan struct{}
	stop    chan struct{} // closed before the harness closes the transport
	resume  chan struct{}
	mu      sync.Mutex
	inbox   []stamped
	dropped bool
	lastInv  wamp.ID // last invocation id received (hostile scenarios)
	lastCall wamp.ID // last call request sent
	unReq   map[wamp.ID]wamp.ID // UNSUBSCRIBE / UNREGISTER request -> the id it named
	respond int                 // auto-responder: progressive results per invocation (0 = off)
	subReq  map[wamp.ID]subInfo
	subs    map[wamp.ID]subInfo
	callReq map[wamp.ID]string
	joined  bool
	left    bool // a leave step was issued for the session
	attachErr bool
	tainted bool // offender or its partner in a hostile scenario: not observed
	realm   int
	local   bool
	gone    bool // the router closed the transport
	welcomed  bool   // a WELCOME was received
	silent    bool   // handshake peer that never sends anything
	hs        bool   // attached by a handshake step (hello)
	wire      bool   // network transport (rawsocket / websocket)
	deaf      bool   // hung up during the handshake: nothing is observed any more
	notify    chan struct{} // signalled by the reader on every received message
	challenge string // the challenge the router issued to this peer
	chMethod  string
}

type canon struct {
	fwd map[wamp.ID]int
	rev map[int]wamp.ID
}

func newCanon() *canon { return &canon{fwd: map[wamp.ID]int{}, rev: map[int]wamp.ID{}} }

func (c *canon) of(raw wamp.ID) int {
	if raw == 0 {
		return 0
	}
	if n, ok := c.fwd[raw]; ok {
		return n
	}
	n := len(c.fwd) + 1
	c.fwd[raw] = n
	c.rev[n] = raw
	return n
}

// raw returns the real id for a canonical one; ids the router never issued
// map to values it cannot have issued.
func (c *canon) raw(n int) wamp.ID {
	if r, ok := c.rev[n]; ok {
		return r
	}
	return wamp.ID(4_000_000_000 + n)
}

// realmCtx is the per-realm observation state: ids are canonicalised per realm.
type realmCtx struct {
	idx      int
	uri      wamp.URI
	cfg      Cfg
	scn      string
	alive    bool
	sessC    *canon
	subC     *canon
	regC     *canon
	pubC     *canon
	badIDs   int
	base     map[string]int
	baseG    int
	baseRegs map[wamp.ID]bool // registrations of the realm's own meta procedures
}

// Exec runs scenarios and writes trace events.
type Exec struct {
	enc    *json.Encoder
	rt     router.Router
	peers  map[string]*peer
	order  []string
	quit   chan struct{}
	start  time.Time
	poison bool
	closed bool // router.Close was called
	lastRet bool
	*realmCtx
	realms []*realmCtx
}

// NewExec creates an executor writing ndjson trace events to w.
func NewExec(w io.Writer) *Exec {
	return &Exec{enc: json.NewEncoder(w)}
}

func chars(s string) []string {
	out := []string{}
	for _, r := range s {
		out = append(out, string(r))
	}
	return out
}

func unchars(c []string) string { return strings.Join(c, "") }

func (x *Exec) nowMs() int { return int(time.Since(x.start) / time.Millisecond) }

// RunScenario executes one scenario inside its own synctest bubble. It must
// be called from within synctest.Test.
func (x *Exec) RunScenario(sc *Scenario) {
	x.peers = map[string]*peer{}
	x.order = nil
	x.quit = make(chan struct{})
	x.start = time.Now()
	x.poison = sc.Poison
	x.closed = false

	cfgs := sc.Realms
	if len(cfgs) == 0 {
		cfgs = []Cfg{sc.Cfg}
	}
	x.realms = nil
	rcfg := &router.Config{}
	for i, c := range cfgs {
		rc := &realmCtx{idx: i, uri: realmName(i), cfg: c, scn: sc.ID,
			sessC: newCanon(), subC: newCanon(), regC: newCanon(), pubC: newCanon()}
		if len(cfgs) > 1 {
			rc.scn = sc.ID + "#" + strconv.Itoa(i)
		}
		x.realms = append(x.realms, rc)
		switch {
		case c.Template:
			rcfg.RealmTemplate = x.realmConfig(rc)
		case c.Late:
		default:
			rcfg.RealmConfigs = append(rcfg.RealmConfigs, x.realmConfig(rc))
		}
	}
	rt, err := router.NewRouter(rcfg, log.New(io.Discard, "", 0))
	if err != nil {
		panic("harness: cannot create router: " + err.Error())
	}
	x.rt = rt
	synctest.Wait()
	for _, rc := range x.realms {
		if !rc.cfg.Template && !rc.cfg.Late {
			x.realmStarted(rc)
		}
	}

	for _, in := range sc.Steps {
		x.step(sc, in)
	}
	if n := len(sc.Steps); n > 0 && sc.Steps[n-1].Op == "burst" && sc.Steps[n-1].How != "pub" {
		// after a mixed burst the routing state is not tracked any more: the scenario ends
		// with a sign of life from the router
		sc.Epilogue = false
		if sc.Steps[n-1].How == "mix" {
			x.step(sc, Input{Op: "alive"})
		}
	}
	if sc.Epilogue {
		// let every handler that is retrying a RESULT to a blocked caller finish
		// (bounded by the result-retry period) before anybody is asked to leave
		x.step(sc, Input{Op: "advance", Ms: 70_000})
		hows := []string{"goodbye", "lost", "violation"}
		n := 0
		for _, name := range append([]string{}, x.order...) {
			if p := x.peers[name]; p.joined && !p.dropped && !p.gone && !p.left {
				x.step(sc, Input{Op: "leave", R: p.realm, S: name, How: hows[n%len(hows)]})
				n++
			}
		}
		x.step(sc, Input{Op: "advance", Ms: 7_200_000})
		x.step(sc, Input{Op: "snap"})
	}

	close(x.quit)
	rt.Close()
	synctest.Wait()
	// the harness ends of network transports have goroutines of their own
	for _, name := range x.order {
		if p := x.peers[name]; p.wire && !p.dropped {
			func() {
				defer func() { _ = recover() }()
				p.cli.Close()
			}()
		}
	}
	synctest.Wait()
}

func (x *Exec) realmConfig(rc *realmCtx) *router.RealmConfig {
	users := map[string]string{}
	for _, u := range rc.cfg.Users {
		users[u.ID] = u.Role
	}
	ac := normCfg(rc.cfg).Auth
	tmo := time.Duration(ac.Crtmo) * time.Millisecond
	var auths []auth.Authenticator
	for _, m := range ac.Methods {
		switch m {
		case "ticket":
			auths = append(auths, auth.NewTicketAuthenticator(&keyStore{users}, tmo))
		case "wampcra":
			auths = append(auths, auth.NewCRAuthenticator(&keyStore{users}, tmo))
		case "cryptosign":
			auths = append(auths, auth.NewCryptoSignAuthenticator(&keyStore{users}, tmo))
		}
	}
	c := &router.RealmConfig{
		URI:               rc.uri,
		StrictURI:         rc.cfg.Strict,
		AnonymousAuth:     ac.Anon,
		AllowDisclose:     rc.cfg.Disclose,
		EnableMetaKill:    rc.cfg.Metakill,
		EnableMetaModify:  true,
		Authenticators:    auths,
		RequireLocalAuth:  ac.Lauth,
		RequireLocalAuthz: rc.cfg.Lauthz,
	}
	if len(rc.cfg.Authz) != 0 {
		c.Authorizer = &tableAuthorizer{rules: rc.cfg.Authz}
	}
	for _, h := range rc.cfg.Hcfg {
		c.TopicEventHistoryConfigs = append(c.TopicEventHistoryConfigs,
			&router.TopicEventHistoryConfig{Topic: wamp.URI(unchars(h.U)), MatchPolicy: h.M, Limit: h.N})
	}
	return c
}

// realmStarted takes the baselines of a realm that now exists and starts its trace.
func (x *Exec) realmStarted(rc *realmCtx) {
	x.realmCtx = rc
	rc.alive = true
	// the ids of the pre-created history subscriptions are 1..n in configuration order
	for i := range rc.cfg.Hcfg {
		rc.subC.of(wamp.ID(i + 1))
	}
	x.learnBaseline()
	rc.base, _, _ = router.VerifSnapshot(x.rt, rc.uri)
	x.emit(Event{Ev: "reset", Scn: rc.scn, Cfg: normCfg(rc.cfg), Now: x.nowMs()})
}

func normCfg(c Cfg) Cfg {
	if c.Hcfg == nil {
		c.Hcfg = []HistCfg{}
	}
	if c.Users == nil {
		c.Users = []User{}
	}
	if c.Authz == nil {
		c.Authz = []Rule{}
	}
	if c.Auth.Crtmo == 0 {
		// the configuration of the routing scenarios: anonymous and ticket authentication
		c.Auth = AuthCfg{Anon: true, Methods: []string{"ticket"}, Lauth: false, Crtmo: 60000}
	}
	if c.Auth.Methods == nil {
		c.Auth.Methods = []string{}
	}
	return c
}

func (x *Exec) emit(ev Event) {
	if ev.Out == nil {
		ev.Out = []SessOut{}
	}
	if ev.Snap == nil {
		ev.Snap = []SnapKV{}
	}
	if ev.Bind.Hp == nil {
		ev.Bind.Hp = []int{}
	}
	if ev.Bind.Closed == nil {
		ev.Bind.Closed = []string{}
	}
	ev.In = normInput(ev.In)
	ev.Cfg = normCfg(ev.Cfg)
	if err := x.enc.Encode(ev); err != nil {
		panic(err)
	}
}

func normInput(in Input) Input {
	if in.URI == nil {
		in.URI = []string{}
	}
	if in.Args == nil {
		in.Args = []string{}
	}
	if in.O.Xl == nil {
		in.O.Xl = []int{}
	}
	if in.O.El == nil {
		in.O.El = []int{}
	}
	if in.O.Xa == nil {
		in.O.Xa = []AttrList{}
	}
	if in.O.Ea == nil {
		in.O.Ea = []AttrList{}
	}
	for i := range in.O.Xa {
		if in.O.Xa[i].V == nil {
			in.O.Xa[i].V = []string{}
		}
	}
	for i := range in.O.Ea {
		if in.O.Ea[i].V == nil {
			in.O.Ea[i].V = []string{}
		}
	}
	if in.Join.Feats == nil {
		in.Join.Feats = []string{}
	}
	if in.Uri2 == nil {
		in.Uri2 = []string{}
	}
	if in.Prog == nil {
		in.Prog = []Program{}
	}
	for i := range in.Prog {
		if in.Prog[i].Ops == nil {
			in.Prog[i].Ops = []Input{}
		}
		for j := range in.Prog[i].Ops {
			in.Prog[i].Ops[j] = normInput(in.Prog[i].Ops[j])
		}
	}
	if in.F.Topic == nil {
		in.F.Topic = []string{}
	}
	if in.Hello.Methods == nil {
		in.Hello.Methods = []string{}
	}
	if in.Hello.Feats == nil {
		in.Hello.Feats = []string{}
	}
	return in
}

// ---------------------------------------------------------------------------
// peers

func (x *Exec) newPeer(name string, j Join) *peer {
	cli, rtr := transport.LinkedPeersQSize(j.Q)
	if !j.Local && j.Tr != "" {
		q := j.Q
		if q == 0 {
			q = 64
		}
		ser := j.Tr[strings.Index(j.Tr, "-")+1:]
		switch {
		case strings.HasPrefix(j.Tr, "rs-"):
			c, r, err := rawsocketPair(ser, q)
			if err != nil {
				panic("harness: rawsocket handshake: " + err.Error())
			}
			cli, rtr = c, r
		case strings.HasPrefix(j.Tr, "wsk-"):
			// websocket with the router side's keep-alive switched on (another send loop)
			cli, rtr = websocketPair(ser, q, 30*time.Second)
		default:
			cli, rtr = websocketPair(ser, q, 0)
		}
	}
	p := &peer{
		name: name, cli: cli,
		sendq:   make(chan wamp.Message, 1024),
		stall:   make(chan struct{}),
		stop:    make(chan struct{}),
		resume:  make(chan struct{}),
		notify:  make(chan struct{}, 1),
		subReq:  map[wamp.ID]subInfo{},
		unReq:   map[wamp.ID]wamp.ID{},
		subs:    map[wamp.ID]subInfo{},
		callReq: map[wamp.ID]string{},
	}
	p.realm = x.idx
	p.wire = !j.Local && j.Tr != ""
	p.tainted = j.Color == "tainted"
	x.peers[name] = p
	x.order = append(x.order, name)
	var rp wamp.Peer = rtr
	if !j.Local && j.Tr == "" {
		rp = remotePeer{rtr}
	}
	if j.Local {
		go func() {
			if err := x.rt.Attach(rp); err != nil {
				p.mu.Lock()
				p.attachErr = true
				p.mu.Unlock()
			}
		}()
	} else {
		// a network peer comes with transport details, including authentication
		// data that must never be shown to other sessions (C12)
		td := wamp.Dict{"kind": "verif", "auth": wamp.Dict{"cookie": "secret-" + name}}
		if strings.HasSuffix(name, "1") || strings.HasSuffix(name, "3") {
			// some transports have nothing but authentication data to tell
			td = wamp.Dict{"auth": wamp.Dict{"cookie": "secret-" + name}}
		}
		go func() {
			if err := x.rt.AttachClient(rp, td); err != nil {
				p.mu.Lock()
				p.attachErr = true
				p.mu.Unlock()
			}
		}()
	}
	p.local = j.Local
	// reader
	go func() {
		for {
			select {
			case m, ok := <-cli.Recv():
				p.mu.Lock()
				if !ok {
					p.inbox = append(p.inbox, stamped{nil, x.nowMs()})
					p.mu.Unlock()
					return
				}
				p.inbox = append(p.inbox, stamped{m, x.nowMs()})
				n := p.respond
				p.mu.Unlock()
				select {
				case p.notify <- struct{}{}:
				default:
				}
				if inv, ok := m.(*wamp.Invocation); ok && n > 0 {
					// auto-responder of burst steps: n progressive results, then the final one
					for i := 1; i <= n; i++ {
						p.send(&wamp.Yield{Request: inv.Request, Options: wamp.Dict{"progress": true},
							Arguments: wamp.List{"R." + strconv.Itoa(i)}, ArgumentsKw: wamp.Dict{"k": "R." + strconv.Itoa(i)}})
					}
					p.send(&wamp.Yield{Request: inv.Request, Options: wamp.Dict{},
						Arguments: wamp.List{"R." + strconv.Itoa(n+1)}, ArgumentsKw: wamp.Dict{"k": "R." + strconv.Itoa(n+1)}})
				}
			case <-p.stall:
				select {
				case <-p.resume:
				case <-x.quit:
					return
				}
			case <-x.quit:
				return
			}
		}
	}()
	// sender
	go func() {
		for {
			select {
			case m := <-p.sendq:
				select {
				case cli.Send() <- m:
				case <-p.stop:
					return
				case <-x.quit:
					return
				}
			case <-p.stop:
				return
			case <-x.quit:
				return
			}
		}
	}()
	return p
}

func (p *peer) send(m wamp.Message) {
	if p.dropped {
		return
	}
	p.sendq <- m
}

func (p *peer) take() []stamped {
	p.mu.Lock()
	defer p.mu.Unlock()
	r := p.inbox
	p.inbox = nil
	return r
}

func helloDetails(j Join) wamp.Dict {
	roles := map[string]wamp.Dict{
		"publisher": {}, "subscriber": {}, "caller": {}, "callee": {},
	}
	for _, f := range j.Feats {
		if strings.HasPrefix(f, "-") {
			// the session does not announce this role at all (the router does not care:
			// whatever the session then does in that role is served - and undone - all the same)
			delete(roles, f[1:])
			continue
		}
		rf := strings.SplitN(f, ":", 2)
		if len(rf) != 2 {
			continue
		}
		if _, ok := roles[rf[0]]; !ok {
			roles[rf[0]] = wamp.Dict{}
		}
		roles[rf[0]][rf[1]] = true
	}
	rd := wamp.Dict{}
	for r, fs := range roles {
		rd[r] = wamp.Dict{"features": fs}
	}
	d := wamp.Dict{"roles": rd, "authid": j.Authid}
	if j.Color != "" {
		d["color"] = j.Color
	}
	if !j.Local {
		d["authmethods"] = wamp.List{"ticket"}
	}
	return d
}

// helloMsg builds the HELLO of a handshake step.
func (x *Exec) helloMsg(h Hello) *wamp.Hello {
	d := helloDetails(Join{Authid: h.Authid, Color: h.Color, Feats: h.Feats, Local: true})
	if h.Authid == "" {
		delete(d, "authid")
	}
	switch h.Roles {
	case "none":
		delete(d, "roles")
	case "unknown":
		d["roles"] = wamp.Dict{"spectator": wamp.Dict{"features": wamp.Dict{}}}
	case "badtype":
		d["roles"] = "publisher"
	}
	if len(h.Methods) != 0 {
		l := wamp.List{}
		for _, m := range h.Methods {
			if m == "#" {
				l = append(l, 5)
			} else {
				l = append(l, m)
			}
		}
		d["authmethods"] = l
	}
	if h.Smuggle {
		d["authrole"] = "smuggled-role"
		d["authprovider"] = "smuggled-provider"
		d["authmethod"] = "smuggled-method"
		d["session"] = 4242
		d["authextra"] = wamp.Dict{"authrole": "smuggled-role"}
	}
	realm := x.uri
	switch h.Realm {
	case "missing":
		realm = "verif.nosuchrealm"
	case "empty":
		realm = ""
	}
	return &wamp.Hello{Realm: realm, Details: d}
}

// authMsg concretises an abstract response: real HMAC / ed25519 signatures over
// the challenge strings the router really issued, tickets as configured.
func (x *Exec) authMsg(p *peer, in Input) wamp.Message {
	r := in.Resp
	switch r.Kind {
	case "garbage":
		return &wamp.Authenticate{Signature: "garbage!!", Extra: wamp.Dict{}}
	case "other":
		a, kw := payload("notauth")
		return &wamp.Publish{Request: 1, Options: wamp.Dict{"acknowledge": true}, Topic: "a.b", Arguments: a, ArgumentsKw: kw}
	}
	if r.Kind == "empty" {
		// made without any secret: HMAC under the empty key, the empty ticket, an all-zero signature
		switch p.chMethod {
		case "wampcra":
			return &wamp.Authenticate{Signature: crsign.SignChallenge(p.challenge, nil), Extra: wamp.Dict{}}
		case "cryptosign":
			return &wamp.Authenticate{Signature: hex.EncodeToString(make([]byte, 96)), Extra: wamp.Dict{}}
		}
		return &wamp.Authenticate{Signature: "", Extra: wamp.Dict{}}
	}
	chal := p.challenge
	if r.Ch != "" && r.Ch != p.name {
		chal = ""
		if q := x.peers[r.Ch]; q != nil && q.chMethod == p.chMethod {
			chal = q.challenge
		}
	}
	sig := ""
	switch p.chMethod {
	case "ticket":
		sig = "tkt-" + r.Key
	case "wampcra":
		if chal == "" {
			chal = "no challenge"
		}
		sig = crsign.SignChallenge(chal, []byte("cra-"+r.Key))
	case "cryptosign":
		msg, err := hex.DecodeString(chal)
		if err != nil || len(msg) != 32 {
			msg = make([]byte, 32)
		}
		_, priv := signKeys(r.Key)
		sig = hex.EncodeToString(sign.Sign(nil, msg, priv))
	}
	return &wamp.Authenticate{Signature: sig, Extra: wamp.Dict{}}
}

// ---------------------------------------------------------------------------
// steps

func payload(tag string) (wamp.List, wamp.Dict) {
	if strings.HasPrefix(tag, "u") {
		// a payload no serializer can encode (in-process publishers can hand over anything):
		// a network peer must drop that message as a whole, and only that message (C15)
		return wamp.List{tag}, wamp.Dict{"k": tag, "z": complex(1, 2)}
	}
	return wamp.List{tag}, wamp.Dict{"k": tag}
}

func (x *Exec) ids(l []int) wamp.List {
	out := wamp.List{}
	for _, n := range l {
		out = append(out, x.sessC.raw(n))
	}
	return out
}

func pubOptions(x *Exec, o Opts) wamp.Dict {
	d := wamp.Dict{}
	if o.Ack {
		d["acknowledge"] = true
	} else if len(o.Xl)%2 == 1 || o.Xme == "f" {
		d["acknowledge"] = false // explicitly unacknowledged
	}
	switch o.Xme {
	case "t":
		d["exclude_me"] = true
	case "f":
		d["exclude_me"] = false
	}
	if o.Hx {
		d["exclude"] = x.ids(o.Xl)
	}
	if o.He {
		d["eligible"] = x.ids(o.El)
	}
	for _, a := range o.Xa {
		l := wamp.List{}
		for _, v := range a.V {
			l = append(l, v)
		}
		d["exclude_"+a.A] = l
	}
	for _, a := range o.Ea {
		l := wamp.List{}
		for _, v := range a.V {
			l = append(l, v)
		}
		d["eligible_"+a.A] = l
	}
	if o.Dme {
		d["disclose_me"] = true
	}
	if o.Ppt != "" {
		d["ppt_scheme"] = o.Ppt
	}
	return d
}

func (x *Exec) step(sc *Scenario, in Input) {
	if in.R < 0 || in.R >= len(x.realms) {
		in.R = 0
	}
	x.realmCtx = x.realms[in.R]
	p := x.peers[in.S]
	live := p != nil && p.joined && !p.dropped && !p.gone && !p.left
	skip := func() {
		in.Op = "skip"
		if x.alive {
			x.emit(Event{Ev: "step", Scn: x.scn, In: in, Now: x.nowMs()})
		}
	}
	if !x.alive && !(in.Op == "join" && x.cfg.Template) && in.Op != "addrealm" && in.Op != "advance" && in.Op != "snap" && in.Op != "closerouter" {
		return // the realm does not exist (yet, or any more): nothing to send to
	}
	req := wamp.ID(in.Req)
	uri := wamp.URI(unchars(in.URI))
	t0 := x.nowMs()
	switch in.Op {
	case "join":
		if p != nil {
			skip()
			return
		}
		p = x.newPeer(in.S, in.Join)
		p.send(&wamp.Hello{Realm: x.uri, Details: helloDetails(in.Join)})
		synctest.Wait()
		if !x.alive {
			// created from the realm template by this HELLO
			rest := p.take()
			x.realmStarted(x.realmCtx)
			for _, st := range rest {
				if _, ok := st.m.(*wamp.Welcome); ok {
					x.base["realm.clients"]-- // the joining session is not part of the baseline
				}
			}
			p.mu.Lock()
			p.inbox = append(rest, p.inbox...)
			p.mu.Unlock()
		}
		// answer a ticket challenge
		p.mu.Lock()
		var rest []stamped
		challenged := false
		for _, s := range p.inbox {
			if _, ok := s.m.(*wamp.Challenge); ok {
				challenged = true
				continue
			}
			rest = append(rest, s)
		}
		p.inbox = rest
		p.mu.Unlock()
		if challenged {
			p.send(&wamp.Authenticate{Signature: "tkt-" + in.Join.Authid, Extra: wamp.Dict{}})
		}
		p.joined = true
	case "hello":
		if p != nil {
			skip()
			return
		}
		h := in.Hello
		p = x.newPeer(in.S, Join{Authid: h.Authid, Color: h.Color, Feats: h.Feats, Local: h.Local, Q: h.Q})
		p.hs = true
		switch h.First {
		case "HELLO":
			p.send(x.helloMsg(h))
		case "none":
			p.silent = true
		case "AUTHENTICATE":
			p.send(&wamp.Authenticate{Signature: "tkt-" + h.Authid, Extra: wamp.Dict{}})
		default:
			// some other message, towards a topic observers are subscribed to
			a, kw := payload("first")
			p.send(&wamp.Publish{Request: 1, Options: wamp.Dict{"acknowledge": true}, Topic: "a.b", Arguments: a, ArgumentsKw: kw})
		}
	case "auth":
		if p == nil || !p.hs || p.welcomed || p.gone || p.dropped {
			skip()
			return
		}
		p.send(x.authMsg(p, in))
	case "hsdrop":
		if p == nil || !p.hs || p.welcomed || p.gone || p.dropped {
			skip()
			return
		}
		synctest.Wait()
		p.drop()
		p.deaf = true // what the router still writes to a peer that hung up is not observable
	case "intrude":
		if p == nil || !p.hs || p.welcomed || p.dropped {
			skip()
			return
		}
		// a peer that was turned away keeps talking
		a, kw := payload(in.Tag)
		p.send(&wamp.Subscribe{Request: req, Options: wamp.Dict{"match": "prefix"}, Topic: "a"})
		p.send(&wamp.Publish{Request: req + 1, Options: wamp.Dict{"acknowledge": true}, Topic: "a.b", Arguments: a, ArgumentsKw: kw})
		p.send(&wamp.Call{Request: req + 2, Options: wamp.Dict{}, Procedure: "wamp.session.count"})
	case "subscribe":
		if !live {
			skip()
			return
		}
		opts := wamp.Dict{}
		if in.O.Match != "" {
			opts["match"] = in.O.Match
		}
		p.subReq[req] = subInfo{string(uri), in.O.Match}
		p.send(&wamp.Subscribe{Request: req, Options: opts, Topic: uri})
	case "unsubscribe":
		if !live {
			skip()
			return
		}
		p.mu.Lock()
		p.unReq[req] = x.subC.raw(in.ID)
		p.mu.Unlock()
		p.send(&wamp.Unsubscribe{Request: req, Subscription: x.subC.raw(in.ID)})
	case "publish":
		if !live {
			skip()
			return
		}
		a, kw := payload(in.Tag)
		p.send(&wamp.Publish{Request: req, Options: pubOptions(x, in.O), Topic: uri, Arguments: a, ArgumentsKw: kw})
	case "register":
		if !live {
			skip()
			return
		}
		opts := wamp.Dict{}
		if in.O.Match != "" {
			opts["match"] = in.O.Match
		}
		if in.O.Invoke != "" {
			opts["invoke"] = in.O.Invoke
		}
		if in.O.Dcl {
			opts["disclose_caller"] = true
		}
		if in.O.Fwd {
			opts["forward_timeout"] = true
		}
		p.send(&wamp.Register{Request: req, Options: opts, Procedure: uri})
	case "unregister":
		if !live {
			skip()
			return
		}
		p.mu.Lock()
		p.unReq[req] = x.regC.raw(in.ID)
		p.mu.Unlock()
		p.send(&wamp.Unregister{Request: req, Registration: x.regC.raw(in.ID)})
	case "call":
		if !live {
			skip()
			return
		}
		opts := wamp.Dict{}
		if in.O.Dme {
			opts["disclose_me"] = true
		}
		if in.O.Rprog {
			opts["receive_progress"] = true
		}
		if in.O.Tmo != 0 {
			opts["timeout"] = in.O.Tmo
		}
		if in.O.Prog {
			opts["progress"] = true // a chunk of a progressive call invocation, more follow
		}
		if in.O.Ppt != "" {
			opts["ppt_scheme"] = in.O.Ppt
		}
		a, kw := payload(in.Tag)
		p.callReq[req] = string(uri)
		p.lastCall = req
		p.send(&wamp.Call{Request: req, Options: opts, Procedure: uri, Arguments: a, ArgumentsKw: kw})
	case "cancel":
		if !live {
			skip()
			return
		}
		opts := wamp.Dict{}
		if in.O.Mode != "" {
			opts["mode"] = in.O.Mode
		}
		p.send(&wamp.Cancel{Request: req, Options: opts})
	case "yield":
		if !live {
			skip()
			return
		}
		opts := wamp.Dict{}
		if in.O.Prog {
			opts["progress"] = true
		}
		if in.O.Ppt != "" {
			opts["ppt_scheme"] = in.O.Ppt
		}
		a, kw := payload(in.Tag)
		p.send(&wamp.Yield{Request: wamp.ID(in.ID), Options: opts, Arguments: a, ArgumentsKw: kw})
	case "inverror":
		if !live {
			skip()
			return
		}
		a, kw := payload(in.Tag)
		p.send(&wamp.Error{Type: wamp.INVOCATION, Request: wamp.ID(in.ID), Details: wamp.Dict{},
			Error: wamp.URI(in.O.Err), Arguments: a, ArgumentsKw: kw})
	case "leave":
		if !live {
			skip()
			return
		}
		p.left = true
		switch in.How {
		case "goodbye":
			p.send(&wamp.Goodbye{Reason: wamp.CloseRealm, Details: wamp.Dict{}})
		case "violation":
			// a message type no router accepts from a client
			p.send(&wamp.Welcome{ID: 1, Details: wamp.Dict{}})
		default: // "lost"
			in.How = "lost"
			synctest.Wait()
			p.drop()
		}
	case "metacall":
		if !live {
			skip()
			return
		}
		args, kw := x.metaArgs(in)
		p.callReq[req] = string(uri)
		p.send(&wamp.Call{Request: req, Options: wamp.Dict{}, Procedure: uri, Arguments: args, ArgumentsKw: kw})
	case "pci":
		// unmodelled traffic between two tainted sessions (C06): a progressive call
		// invocation with a router-side timeout, sent in in.ID chunks
		callee, caller := x.peers[in.S], x.peers[in.Args[0]]
		if callee == nil || caller == nil {
			skip()
			return
		}
		callee.send(&wamp.Register{Request: 1, Options: wamp.Dict{}, Procedure: "pci.proc"})
		synctest.Wait()
		for i := 0; i < in.ID; i++ {
			a, kw := payload("pci")
			caller.send(&wamp.Call{Request: 2, Options: wamp.Dict{"progress": i < in.ID-1 || in.How == "open", "timeout": in.Ms},
				Procedure: "pci.proc", Arguments: a, ArgumentsKw: kw})
			synctest.Wait()
		}
	case "burst":
		x.burst(in)
	case "alive":
		x.signOfLife()
	case "stall":
		if !live {
			skip()
			return
		}
		p.stall <- struct{}{}
	case "resume":
		if !live {
			skip()
			return
		}
		p.resume <- struct{}{}
	case "hostile":
		x.hostile(in)
	case "advance":
		time.Sleep(time.Duration(in.Ms) * time.Millisecond)
	case "snap":
	case "addrealm":
		if x.alive || !x.cfg.Late {
			return
		}
		if err := x.rt.AddRealm(x.realmConfig(x.realmCtx)); err != nil {
			panic("harness: AddRealm: " + err.Error())
		}
		synctest.Wait()
		x.realmStarted(x.realmCtx)
		return
	case "rmrealm", "closerouter":
		ret := make(chan struct{})
		var release chan struct{}
		if in.Gate && in.With != nil && in.With.Op == "join" && x.peers[in.With.S] == nil {
			// the joining session is held right before its WELCOME is sent
			release = make(chan struct{})
			held := release
			router.VerifGate = func(point string) {
				if point == "attach.beforeWelcome" && held != nil {
					h := held
					held = nil
					<-h
				}
			}
			q := x.newPeer(in.With.S, in.With.Join)
			q.send(&wamp.Hello{Realm: x.uri, Details: helloDetails(in.With.Join)})
			q.joined = true
			synctest.Wait()
			in.With = &Input{Op: "none"}
		}
		if in.Op == "rmrealm" {
			uri := x.uri
			go func() { x.rt.RemoveRealm(uri); close(ret) }()
		} else {
			x.closed = true
			go func() { x.rt.Close(); close(ret) }()
		}
		if in.With != nil {
			// the next input arrives while the shutdown is in progress
			if in.With.Op == "join" && in.With.R != in.R && in.Op == "rmrealm" {
				// ... in another realm, which the removal must not disturb (C11); only if
				// that realm exists (a HELLO would create a template realm)
				if in.With.R >= 0 && in.With.R < len(x.realms) && x.realms[in.With.R].alive && x.peers[in.With.S] == nil {
					x.realmCtx = x.realms[in.With.R]
					q := x.newPeer(in.With.S, in.With.Join)
					q.send(&wamp.Hello{Realm: x.uri, Details: helloDetails(in.With.Join)})
					q.joined = true
					x.realmCtx = x.realms[in.R]
				} else {
					in.With = nil
				}
			} else if in.With.Op == "join" && x.peers[in.With.S] == nil {
				q := x.newPeer(in.With.S, in.With.Join)
				q.send(&wamp.Hello{Realm: x.uri, Details: helloDetails(in.With.Join)})
				q.joined = true
			} else if q := x.peers[in.With.S]; q != nil && q.joined && !q.dropped && !q.gone {
				x.sendConcurrent(q, *in.With)
			}
		}
		synctest.Wait()
		if release != nil {
			close(release)
			synctest.Wait()
			router.VerifGate = func(string) {}
		}
		select {
		case <-ret:
			x.lastRet = true
		default:
			// the shutdown may legitimately wait for a handler that is retrying
			// a RESULT to a blocked caller (bounded by the result-retry period)
			time.Sleep(70 * time.Second)
			synctest.Wait()
			select {
			case <-ret:
				x.lastRet = true
			default:
				x.lastRet = false
			}
		}
	default:
		panic("harness: unknown op " + in.Op)
	}
	synctest.Wait()

	outs, binds := x.collect(in)
	cross := in.With != nil && in.With.Op == "join" && in.With.R != in.R && in.Op == "rmrealm"
	for _, rc := range x.realms {
		if !rc.alive {
			continue
		}
		x.realmCtx = rc
		ev := Event{Ev: "step", Scn: rc.scn, In: in}
		ev.In.With = nil
		switch {
		case in.Op == "advance" || in.Op == "snap":
			// time and the final snapshot are global: every realm's trace has them
			ev.In.R = rc.idx
		case cross && rc.idx == in.With.R:
			// the session that joined this realm while the other one was being removed:
			// welcomed at once (its WELCOME carries the time), then the clock moves on
			ev.In = *in.With
			// (what arrived later than the instant of the join - a RESULT whose retry became
			// due while the other realm's removal took time - belongs to the passing of time)
			var later []SessOut
			for _, so := range outs[rc.idx] {
				now, aft := SessOut{S: so.S}, SessOut{S: so.S}
				for _, m := range so.M {
					if m.T > t0 {
						aft.M = append(aft.M, m)
					} else {
						now.M = append(now.M, m)
					}
				}
				if len(now.M) > 0 {
					ev.Out = append(ev.Out, now)
				}
				if len(aft.M) > 0 {
					later = append(later, aft)
				}
			}
			ev.Bind = binds[rc.idx]
			for _, so := range ev.Out {
				for _, m := range so.M {
					if m.K == "WELCOME" && so.S == in.With.S {
						ev.Bind.Sid = m.A
					}
				}
			}
			ev.Now = t0
			ev.BadIDs = rc.badIDs
			x.emit(ev)
			if d := x.nowMs() - t0; d > 0 {
				x.emit(Event{Ev: "step", Scn: rc.scn, In: Input{Op: "advance", R: rc.idx, Ms: d}, Out: later, Now: x.nowMs(), BadIDs: rc.badIDs})
			}
			continue
		case rc.idx != in.R && in.Op == "rmrealm" && x.nowMs() > t0:
			// the removal took (virtual) time: the other realms' clocks move on as well, and what
			// arrived there meanwhile must be what the passing of that time explains
			x.emit(Event{Ev: "step", Scn: rc.scn, In: Input{Op: "advance", R: rc.idx, Ms: x.nowMs() - t0}, Out: outs[rc.idx], Bind: binds[rc.idx],
				Now: x.nowMs(), BadIDs: rc.badIDs})
			continue
		case rc.idx != in.R:
			if len(outs[rc.idx]) == 0 {
				continue
			}
			// something arrived in a realm that got no input (C11): logged as an
			// input-less step, which the specification cannot explain
			ev.In = Input{Op: "skip", R: rc.idx}
		}
		ev.Out, ev.Bind = outs[rc.idx], binds[rc.idx]
		ev.Now = x.nowMs()
		ev.BadIDs = rc.badIDs
		if in.Op == "snap" {
			ev.Snap, ev.Gor = x.snapshot()
		}
		if in.Op == "rmrealm" || in.Op == "closerouter" {
			ev.Ret = x.lastRet
			ev.Withc = in.With != nil
		}
		if in.Op == "join" && rc.idx == in.R {
			if q := x.peers[in.S]; q != nil {
				q.mu.Lock()
				ev.AttachErr = q.attachErr
				q.mu.Unlock()
			}
		}
		x.emit(ev)
		if in.Op == "rmrealm" && rc.idx == in.R {
			rc.alive = false
			// its sessions are history: a session that was not reading keeps its queue to itself
			// (the realm may be created again from the template; that is another life)
			for _, q := range x.peers {
				if q.realm == rc.idx {
					q.gone = true
					q.deaf = true
				}
			}
		}

	}
}

// snapshot returns the table sizes relative to the baseline taken right after
// router start, and the number of router goroutines relative to the baseline.
func (x *Exec) snapshot() ([]SnapKV, int) {
	if x.closed {
		// after Close nothing of the router may be left
		return []SnapKV{}, x.routerGoroutines()
	}
	sizes, _, ok := router.VerifSnapshot(x.rt, x.uri)
	if !ok {
		return []SnapKV{{"unavailable", 1}}, 0
	}
	var keys []string
	for k := range sizes {
		keys = append(keys, k)
	}
	sort.Strings(keys)
	out := []SnapKV{}
	for _, k := range keys {
		out = append(out, SnapKV{k, sizes[k] - x.base[k]})
	}
	return out, x.goroutineExcess()
}

// goroutineExcess compares the router's goroutines with those of a fresh
// reference router configured with the realms that exist now.
func (x *Exec) goroutineExcess() int {
	a := x.routerGoroutines()
	cfg := &router.Config{}
	for _, rc := range x.realms {
		if rc.alive {
			cfg.RealmConfigs = append(cfg.RealmConfigs, x.realmConfig(rc))
		}
	}
	ref, err := router.NewRouter(cfg, log.New(io.Discard, "", 0))
	if err != nil {
		return 0
	}
	synctest.Wait()
	b := x.routerGoroutines()
	ref.Close()
	synctest.Wait()
	if a-(b-a) != 0 && os.Getenv("VERIF_DEBUG") != "" {
		buf := make([]byte, 1<<20)
		buf = buf[:runtime.Stack(buf, true)]
		for _, g := range bytes.Split(buf, []byte("\n\n")) {
			if bytes.Contains(g, []byte("nexus/v3/router.")) || bytes.Contains(g, []byte("nexus/v3/transport.")) {
				fmt.Fprintf(os.Stderr, "LEFT: %s\n\n", g)
			}
		}
	}
	return a - (b - a)
}

// routerGoroutines counts goroutines that have a frame of the nexus router or
// transport packages.
func (x *Exec) routerGoroutines() int {
	buf := make([]byte, 1<<20)
	buf = buf[:runtime.Stack(buf, true)]
	n := 0
	for _, g := range bytes.Split(buf, []byte("\n\n")) {
		if bytes.Contains(g, []byte("nexus/v3/router.")) || bytes.Contains(g, []byte("nexus/v3/transport.")) {
			if bytes.Contains(g, []byte("verifharness")) {
				continue
			}
			n++
		}
	}
	return n
}

// ---------------------------------------------------------------------------
// observation

func (x *Exec) chk(id wamp.ID) wamp.ID {
	if id < 1 || id > wamp.MaxID {
		x.badIDs++
	}
	return id
}

// seqOf parses the burst payload tags "B<sender>.<seq>" and "R.<seq>".
func seqOf(tag string) (sender, seq int) {
	if strings.HasPrefix(tag, "B") {
		if i := strings.IndexByte(tag, '.'); i > 1 {
			sender, _ = strconv.Atoi(tag[1:i])
			seq, _ = strconv.Atoi(tag[i+1:])
		}
	} else if strings.HasPrefix(tag, "R.") {
		seq, _ = strconv.Atoi(tag[2:])
	}
	return
}

func tagOf(args wamp.List, kw wamp.Dict) string {
	if len(args) == 0 && len(kw) == 0 {
		return ""
	}
	_, unser := kw["z"].(complex128)
	if len(args) == 1 && (len(kw) == 1 || (len(kw) == 2 && unser)) {
		a, ok1 := wamp.AsString(args[0])
		k, ok2 := wamp.AsString(kw["k"])
		if ok1 && ok2 && a == k {
			return a
		}
	}
	return fmt.Sprintf("CORRUPT(%v|%v)", args, kw)
}

func str(v any) string {
	switch v := v.(type) {
	case string:
		return v
	case wamp.URI:
		return string(v)
	case bool:
		return strconv.FormatBool(v)
	}
	if i, ok := wamp.AsInt64(v); ok {
		return strconv.FormatInt(i, 10)
	}
	return fmt.Sprint(v)
}

func sortPairs(p [][2]string) [][2]string {
	if p == nil {
		return [][2]string{}
	}
	sort.Slice(p, func(i, j int) bool { return p[i][0] < p[j][0] })
	return p
}

func blank(k string, t int) Msg {
	return Msg{K: k, U: []string{}, V: []string{}, W: []string{}, D: [][2]string{}, Pd: [][2]string{}, Ids: []int{}, Hl: []HistEntry{}, T: t}
}

func (x *Exec) identPairs(d wamp.Dict, keys ...string) [][2]string {
	var out [][2]string
	for _, k := range keys {
		if v, ok := d[k]; ok {
			sv := str(v)
			if k == "authid" && x.randomAuthid(sv) {
				sv = "RANDOM" // an id the router made up
			}
			out = append(out, [2]string{k, sv})
		}
	}
	if tr, ok := wamp.AsDict(d["transport"]); ok && tr != nil {
		if _, leak := tr["auth"]; leak {
			out = append(out, [2]string{"transport.auth", "LEAK"})
		}
	}
	return sortPairs(out)
}

// randomAuthid tells whether an authid is one the router generated (hex of a
// random id) rather than a name any scenario uses.
func (x *Exec) randomAuthid(s string) bool {
	if s == "" || len(s) > 14 {
		return false
	}
	for _, u := range x.cfg.Users {
		if u.ID == s {
			return false
		}
	}
	for _, c := range s {
		if !(c >= '0' && c <= '9') && !(c >= 'a' && c <= 'f') {
			return false
		}
	}
	return true // no name used by any scenario consists of hex digits only
}

func (x *Exec) sessID(v any) int {
	id, ok := wamp.AsID(v)
	if !ok {
		return -1
	}
	return x.sessC.of(x.chk(id))
}

func (x *Exec) abstract(p *peer, s stamped) Msg {
	if s.m == nil {
		return blank("CLOSED", s.t)
	}
	switch m := s.m.(type) {
	case *wamp.Welcome:
		p.welcomed = true
		r := blank("WELCOME", s.t)
		r.A = x.sessC.of(x.chk(m.ID))
		r.D = x.identPairs(m.Details, "authid", "authrole", "authmethod", "authprovider")
		return r
	case *wamp.Abort:
		r := blank("ABORT", s.t)
		r.E = string(m.Reason)
		if p.hs && !p.welcomed {
			r.E = "" // the reason given to a peer that is turned away is not part of any property
		}
		return r
	case *wamp.Goodbye:
		r := blank("GOODBYE", s.t)
		r.E = string(m.Reason)
		return r
	case *wamp.Challenge:
		r := blank("CHALLENGE", s.t)
		r.E = m.AuthMethod
		p.chMethod = m.AuthMethod
		p.challenge, _ = wamp.AsString(m.Extra["challenge"])
		return r
	case *wamp.Subscribed:
		r := blank("SUBSCRIBED", s.t)
		r.Req = int(m.Request)
		r.A = x.subC.of(x.chk(m.Subscription))
		if si, ok := p.subReq[m.Request]; ok {
			p.subs[m.Subscription] = si
			delete(p.subReq, m.Request)
		}
		return r
	case *wamp.Unsubscribed:
		r := blank("UNSUBSCRIBED", s.t)
		r.Req = int(m.Request)
		// which subscription the acknowledged request named (harness bookkeeping;
		// used by the ordering checks only)
		if id, ok := p.unReq[m.Request]; ok {
			r.Y = x.subC.of(id)
		}
		return r
	case *wamp.Published:
		r := blank("PUBLISHED", s.t)
		r.Req = int(m.Request)
		x.chk(m.Publication)
		if m.Request < 100 { // requests >= 100 belong to bursts: publication id not compared
			r.A = x.pubC.of(m.Publication)
		}
		return r
	case *wamp.Registered:
		r := blank("REGISTERED", s.t)
		r.Req = int(m.Request)
		r.A = x.regC.of(x.chk(m.Registration))
		return r
	case *wamp.Unregistered:
		r := blank("UNREGISTERED", s.t)
		r.Req = int(m.Request)
		if id, ok := p.unReq[m.Request]; ok {
			r.Y = x.regC.of(id)
		}
		return r
	case *wamp.Error:
		if m.Type == wamp.ERROR {
			// the router's answer to a refused ERROR message (not a request): not compared
			return blank("IGNORED", s.t)
		}
		if m.Type == wamp.GOODBYE {
			// the authorizer refused the session's GOODBYE: it has not left
			p.left = false
		}
		r := blank("ERROR", s.t)
		r.A = int(m.Type)
		r.Req = int(m.Request)
		r.E = string(m.Error)
		if m.Type == wamp.CALL {
			// only payload forwarded from a callee is compared, never the
			// router's own human readable error arguments
			if t := tagOf(m.Arguments, m.ArgumentsKw); !strings.HasPrefix(t, "CORRUPT") {
				r.P = t
			}
		}
		return r
	case *wamp.Event:
		return x.abstractEvent(p, m, s.t)
	case *wamp.Invocation:
		r := blank("INVOCATION", s.t)
		p.lastInv = m.Request
		r.Req = int(x.chk(m.Request))
		r.A = x.regC.of(x.chk(m.Registration))
		if pr, ok := wamp.AsString(m.Details["procedure"]); ok {
			r.W = chars(pr)
		}
		var d [][2]string
		for k, v := range m.Details {
			switch k {
			case "procedure":
			case "caller":
				d = append(d, [2]string{k, strconv.Itoa(x.sessID(v))})
			case "progress", "receive_progress":
				if b, _ := v.(bool); b {
					d = append(d, [2]string{k, "true"})
				}
			default:
				d = append(d, [2]string{k, str(v)})
			}
		}
		r.D = sortPairs(d)
		r.P = tagOf(m.Arguments, m.ArgumentsKw)
		r.Y, r.X = seqOf(r.P)
		return r
	case *wamp.Result:
		r := blank("RESULT", s.t)
		r.Req = int(m.Request)
		var d [][2]string
		for k, v := range m.Details {
			if k == "progress" {
				if b, _ := v.(bool); b {
					d = append(d, [2]string{k, "true"})
				}
				continue
			}
			d = append(d, [2]string{k, str(v)})
		}
		r.D = sortPairs(d)
		if proc, ok := p.callReq[m.Request]; ok && strings.HasPrefix(proc, "wamp.") {
			x.abstractMetaResult(&r, proc, m)
			return r
		}
		r.P = tagOf(m.Arguments, m.ArgumentsKw)
		_, r.X = seqOf(r.P)
		return r
	case *wamp.Interrupt:
		r := blank("INTERRUPT", s.t)
		r.Req = int(m.Request)
		var d [][2]string
		for k, v := range m.Options {
			d = append(d, [2]string{k, str(v)})
		}
		r.D = sortPairs(d)
		return r
	}
	r := blank("OTHER:"+s.m.MessageType().String(), s.t)
	return r
}

func (x *Exec) abstractEvent(p *peer, m *wamp.Event, t int) Msg {
	r := blank("EVENT", t)
	r.A = x.subC.of(x.chk(m.Subscription))
	topic := "?"
	if si, ok := p.subs[m.Subscription]; ok {
		topic = si.topic
	}
	var d [][2]string
	for k, v := range m.Details {
		switch k {
		case "topic":
			if ts, ok := wamp.AsString(v); ok {
				r.U = chars(ts)
				topic = ts
			}
		case "publisher":
			d = append(d, [2]string{k, strconv.Itoa(x.sessID(v))})
		default:
			d = append(d, [2]string{k, str(v)})
		}
	}
	r.D = sortPairs(d)
	r.V = chars(topic)
	x.chk(m.Publication)
	if !strings.HasPrefix(topic, "wamp.") {
		r.P = tagOf(m.Arguments, m.ArgumentsKw)
		// testament publications (tags "T...") are published by the router's
		// meta session; their publication id is not compared
		// ... as is the id of a publication of a burst (tags "B..."): no order of
		// the concurrent publications is assumed
		if !strings.HasPrefix(r.P, "T") && !strings.HasPrefix(r.P, "B") {
			r.B = x.pubC.of(m.Publication)
		}
		r.Y, r.X = seqOf(r.P)
		return r
	}
	// meta events: positional payload
	arg := func(i int) any {
		if i < len(m.Arguments) {
			return m.Arguments[i]
		}
		return nil
	}
	switch topic {
	case "wamp.session.on_join":
		if det, ok := wamp.AsDict(arg(0)); ok && det != nil {
			r.X = x.sessID(det["session"])
			r.Pd = x.identPairs(det, "authid", "authrole", "authmethod", "authprovider")
		}
	case "wamp.session.on_leave":
		r.X = x.sessID(arg(0))
		// (a detail deleted through wamp.session.modify_details is announced as null: no value)
		orEmpty := func(v any) string {
			if v == nil {
				return ""
			}
			return str(v)
		}
		aid := orEmpty(arg(1))
		if x.randomAuthid(aid) {
			aid = "RANDOM"
		}
		r.Pd = sortPairs([][2]string{{"authid", aid}, {"authrole", orEmpty(arg(2))}})
	case "wamp.subscription.on_create", "wamp.registration.on_create":
		r.X = x.sessID(arg(0))
		if det, ok := wamp.AsDict(arg(1)); ok && det != nil {
			id, _ := wamp.AsID(det["id"])
			var pd [][2]string
			mt, _ := wamp.AsString(det["match"])
			if mt != "prefix" && mt != "wildcard" {
				mt = "exact" // "", "exact" and unknown policies all mean exact matching
			}
			pd = append(pd, [2]string{"match", mt})
			if topic == "wamp.subscription.on_create" {
				r.Y = x.subC.of(x.chk(id))
			} else {
				r.Y = x.regC.of(x.chk(id))
				iv, _ := wamp.AsString(det["invoke"])
				pd = append(pd, [2]string{"invoke", iv})
			}
			if u, ok := wamp.AsString(det["uri"]); ok {
				r.W = chars(u)
			}
			r.Pd = sortPairs(pd)
		}
	case "wamp.subscription.on_subscribe", "wamp.subscription.on_unsubscribe", "wamp.subscription.on_delete":
		r.X = x.sessID(arg(0))
		id, _ := wamp.AsID(arg(1))
		r.Y = x.subC.of(x.chk(id))
	case "wamp.registration.on_register", "wamp.registration.on_unregister", "wamp.registration.on_delete":
		r.X = x.sessID(arg(0))
		id, _ := wamp.AsID(arg(1))
		r.Y = x.regC.of(x.chk(id))
	default:
		r.P = tagOf(m.Arguments, m.ArgumentsKw)
	}
	return r
}

// collect drains every peer and derives the bound values of the step, per realm.
func (x *Exec) collect(in Input) ([][]SessOut, []Bind) {
	outs := make([][]SessOut, len(x.realms))
	binds := make([]Bind, len(x.realms))
	for _, name := range x.order {
		p := x.peers[name]
		raw := p.take()
		if len(raw) == 0 || p.deaf {
			continue
		}
		x.realmCtx = x.realms[p.realm]
		b := &binds[p.realm]
		so := SessOut{S: name}
		for _, s := range raw {
			m := x.abstract(p, s)
			if (p.silent && m.K == "ABORT") || m.K == "IGNORED" {
				continue // whether a peer that never said anything is told ABORT is left open
			}
			if p.hs && m.K == "WELCOME" {
				p.joined = true
			}
			so.M = append(so.M, m)
			if x.poison && p.local {
				poisonMsg(s.m)
			}
			if m.K == "CLOSED" {
				p.gone = true
				if p.tainted {
					b.Closed = append(b.Closed, name)
				}
			}
			if p.realm != in.R {
				continue
			}
			switch m.K {
			case "WELCOME":
				if name == in.S && (in.Op == "join" || in.Op == "hello" || in.Op == "auth") {
					b.Sid = m.A
				}
			case "SUBSCRIBED":
				if name == in.S && in.Op == "subscribe" && m.Req == in.Req {
					b.Sub = m.A
				}
			case "PUBLISHED":
				if name == in.S && in.Op == "publish" && m.Req == in.Req {
					b.Pub = m.A
				}
			case "EVENT":
				if in.Op == "publish" && m.B != 0 && b.Pub == 0 && (m.P == in.Tag || m.P == "rw") {
					b.Pub = m.B
				}
			case "REGISTERED":
				if name == in.S && in.Op == "register" && m.Req == in.Req {
					b.Reg = m.A
				}
			case "INVOCATION":
				if in.Op == "call" && (m.P == in.Tag || m.P == "rw") {
					b.Inv, b.Reg, b.Callee = m.Req, m.A, name
				}
			case "RESULT":
				if in.Op == "metacall" && name == in.S && m.Req == in.Req {
					switch unchars(in.URI) {
					case "wamp.registration.match":
						b.Reg = m.X
					case "wamp.subscription.get_events":
						for _, h := range m.Hl {
							b.Hp = append(b.Hp, h.B)
						}
					}
				}
			}
		}
		if !p.tainted && len(so.M) > 0 {
			outs[p.realm] = append(outs[p.realm], so)
		}
	}
	x.realmCtx = x.realms[in.R]
	return outs, binds
}

// ---------------------------------------------------------------------------
// meta API

func (x *Exec) vtime(ms int) string {
	return x.start.Add(time.Duration(ms) * time.Millisecond).Format(time.RFC3339Nano)
}

// metaArgs builds the arguments of a meta procedure call from the abstract input.
func (x *Exec) metaArgs(in Input) (wamp.List, wamp.Dict) {
	proc := unchars(in.URI)
	strs := func() wamp.List {
		l := wamp.List{}
		for _, a := range in.Args {
			l = append(l, a)
		}
		return l
	}
	kill := func() wamp.Dict {
		kw := wamp.Dict{}
		if len(in.Uri2) != 0 {
			kw["reason"] = unchars(in.Uri2)
		}
		return kw
	}
	switch proc {
	case "wamp.session.count", "wamp.session.list":
		if len(in.Args) == 0 {
			return nil, nil
		}
		return wamp.List{strs()}, nil
	case "wamp.session.get":
		return wamp.List{x.sessC.raw(in.ID)}, nil
	case "wamp.session.kill":
		return wamp.List{x.sessC.raw(in.ID)}, kill()
	case "wamp.session.modify_details":
		// args = key, value ("" = delete the key); fewer = a malformed request
		if len(in.Args) < 2 {
			return wamp.List{x.sessC.raw(in.ID)}, nil
		}
		var v any
		if in.Args[1] != "" {
			v = in.Args[1]
		}
		return wamp.List{x.sessC.raw(in.ID), wamp.Dict{in.Args[0]: v}}, nil
	case "wamp.session.kill_by_authid", "wamp.session.kill_by_authrole":
		return strs(), kill()
	case "wamp.session.kill_all":
		return nil, kill()
	case "wamp.registration.lookup", "wamp.subscription.lookup":
		if in.O.Match != "" {
			return wamp.List{unchars(in.Uri2), wamp.Dict{"match": in.O.Match}}, nil
		}
		return wamp.List{unchars(in.Uri2)}, nil
	case "wamp.registration.match", "wamp.subscription.match":
		return wamp.List{unchars(in.Uri2)}, nil
	case "wamp.registration.get", "wamp.registration.list_callees", "wamp.registration.count_callees":
		return wamp.List{x.regC.raw(in.ID)}, nil
	case "wamp.subscription.get", "wamp.subscription.list_subscribers", "wamp.subscription.count_suscribers":
		return wamp.List{x.subC.raw(in.ID)}, nil
	case "wamp.session.add_testament":
		a, kw := payload(in.Tag)
		k := wamp.Dict{"publish_options": pubOptions(x, in.O)}
		if in.How != "" {
			k["scope"] = in.How
		}
		return wamp.List{unchars(in.Uri2), a, kw}, k
	case "wamp.session.flush_testaments":
		k := wamp.Dict{}
		if in.How != "" {
			k["scope"] = in.How
		}
		return nil, k
	case "wamp.subscription.get_events":
		kw := wamp.Dict{}
		f := in.F
		if f.Limit != 0 {
			kw["limit"] = f.Limit
		}
		if f.Reverse {
			kw["reverse"] = true
		}
		for k, v := range map[string]int{"from_time": f.FromT, "after_time": f.AfterT, "before_time": f.BeforeT, "until_time": f.UntilT} {
			if v != 0 {
				kw[k] = x.vtime(v)
			}
		}
		for k, v := range map[string]int{"from_publication": f.FromP, "after_publication": f.AfterP, "before_publication": f.BeforeP, "until_publication": f.UntilP} {
			if v != 0 {
				kw[k] = x.pubC.raw(v)
			}
		}
		if len(f.Topic) != 0 {
			kw["topic"] = unchars(f.Topic)
		}
		return wamp.List{x.subC.raw(in.ID)}, kw
	}
	return nil, nil
}

// generic converts any value (including unexported router structs handed to
// in-process peers) into plain JSON-like data.
func generic(v any) any {
	b, err := json.Marshal(v)
	if err != nil {
		return fmt.Sprint(v)
	}
	var out any
	dec := json.NewDecoder(bytes.NewReader(b))
	dec.UseNumber()
	if err := dec.Decode(&out); err != nil {
		return fmt.Sprint(v)
	}
	return out
}

func num(v any) (wamp.ID, bool) {
	switch n := v.(type) {
	case json.Number:
		i, err := n.Int64()
		if err != nil {
			return 0, false
		}
		return wamp.ID(i), true
	}
	if i, ok := wamp.AsInt64(v); ok {
		return wamp.ID(i), true
	}
	return 0, false
}

func (x *Exec) abstractMetaResult(r *Msg, proc string, m *wamp.Result) {
	r.Y = 1
	arg0 := any(nil)
	if len(m.Arguments) > 0 {
		arg0 = generic(m.Arguments[0])
	}
	idList := func(c *canon, v any) []int {
		out := []int{}
		l, _ := v.([]any)
		for _, e := range l {
			if id, ok := num(e); ok {
				out = append(out, c.of(x.chk(id)))
			}
		}
		sort.Ints(out)
		return out
	}
	byMatch := func(c *canon, v any) [][2]string {
		var pd [][2]string
		d, _ := v.(map[string]any)
		for k, l := range d {
			ll, _ := l.([]any)
			for _, e := range ll {
				id, ok := num(e)
				if !ok || (c == x.regC && x.baseRegs[id]) {
					continue // the realm's own meta procedure registrations are the baseline
				}
				pd = append(pd, [2]string{k, strconv.Itoa(c.of(x.chk(id)))})
			}
		}
		sort.Slice(pd, func(i, j int) bool { return pd[i][0]+pd[i][1] < pd[j][0]+pd[j][1] })
		if pd == nil {
			pd = [][2]string{}
		}
		return pd
	}
	count := func() int {
		n, _ := num(arg0)
		return int(n)
	}
	switch proc {
	case "wamp.session.count", "wamp.session.kill_by_authid", "wamp.session.kill_by_authrole", "wamp.session.kill_all",
		"wamp.registration.count_callees", "wamp.subscription.count_suscribers":
		r.X = count()
	case "wamp.session.list", "wamp.registration.list_callees", "wamp.subscription.list_subscribers":
		r.Ids = idList(x.sessC, arg0)
	case "wamp.session.get":
		if d, ok := wamp.AsDict(m.Arguments[0]); ok && d != nil {
			r.X = x.sessID(d["session"])
			r.Pd = x.identPairs(d, "authid", "authrole", "authmethod", "authprovider")
		}
	case "wamp.registration.list":
		r.Pd = byMatch(x.regC, arg0)
	case "wamp.subscription.list":
		r.Pd = byMatch(x.subC, arg0)
	case "wamp.registration.lookup", "wamp.registration.match":
		if id, ok := num(arg0); ok && id != 0 {
			r.X = x.regC.of(x.chk(id))
		}
	case "wamp.subscription.lookup":
		if id, ok := num(arg0); ok && id != 0 {
			r.X = x.subC.of(x.chk(id))
		}
	case "wamp.subscription.match":
		r.Ids = idList(x.subC, arg0)
	case "wamp.registration.get", "wamp.subscription.get":
		d, _ := arg0.(map[string]any)
		id, _ := num(d["id"])
		mt, _ := d["match"].(string)
		if mt != "prefix" && mt != "wildcard" {
			mt = "exact"
		}
		pd := [][2]string{{"match", mt}}
		if proc == "wamp.registration.get" {
			r.X = x.regC.of(x.chk(id))
			iv, _ := d["invoke"].(string)
			pd = append(pd, [2]string{"invoke", iv})
		} else {
			r.X = x.subC.of(x.chk(id))
		}
		if u, ok := d["uri"].(string); ok {
			r.W = chars(u)
		}
		r.Pd = sortPairs(pd)
	case "wamp.subscription.get_events":
		for _, a := range m.Arguments {
			e, _ := generic(a).(map[string]any)
			get := func(names ...string) any {
				for _, n := range names {
					if v, ok := e[n]; ok {
						return v
					}
				}
				return nil
			}
			h := HistEntry{V: []string{}}
			if id, ok := num(get("Publication", "publication")); ok {
				h.B = x.pubC.of(x.chk(id))
			}
			topic := ""
			if det, ok := get("Details", "details").(map[string]any); ok {
				if t, ok := det["topic"].(string); ok {
					topic = t
				}
			}
			if topic == "" {
				// exact history subscription: the topic is the subscription's own
				topic = "="
			}
			h.V = chars(topic)
			var args wamp.List
			if l, ok := get("Arguments", "arguments", "args").([]any); ok {
				args = l
			}
			kw := wamp.Dict{}
			if d, ok := get("ArgumentsKw", "argumentskw", "kwargs").(map[string]any); ok {
				kw = d
			}
			h.P = tagOf(args, kw)
			r.Hl = append(r.Hl, h)
		}
	}
}

// learnBaseline lets an auxiliary session ask for the registrations that exist
// right after start-up (the realm's meta procedures); they are the baseline
// that wamp.registration.list answers are reported relative to.
func (x *Exec) learnBaseline() {
	x.baseRegs = map[wamp.ID]bool{}
	cli, rtr := transport.LinkedPeers()
	go func() { _ = x.rt.Attach(rtr) }()
	hd := helloDetails(Join{Authid: "aux", Local: true})
	ac := normCfg(x.cfg).Auth
	if ac.Lauth && !ac.Anon && len(ac.Methods) > 0 && len(x.cfg.Users) > 0 {
		// in-process peers must authenticate too in this realm
		hd["authid"] = x.cfg.Users[0].ID
		hd["authmethods"] = wamp.List{ac.Methods[0]}
	}
	cli.Send() <- &wamp.Hello{Realm: x.uri, Details: hd}
	first := <-cli.Recv()
	if ch, ok := first.(*wamp.Challenge); ok {
		aux := &peer{name: "aux", chMethod: ch.AuthMethod}
		aux.challenge, _ = wamp.AsString(ch.Extra["challenge"])
		cli.Send() <- x.authMsg(aux, Input{Resp: AuthResp{Kind: "sig", Key: x.cfg.Users[0].ID}})
		first = <-cli.Recv()
	}
	if _, ok := first.(*wamp.Welcome); !ok {
		panic("harness: auxiliary session not welcomed")
	}
	cli.Send() <- &wamp.Call{Request: 1, Options: wamp.Dict{}, Procedure: wamp.MetaProcRegList}
	if res, ok := (<-cli.Recv()).(*wamp.Result); ok && len(res.Arguments) > 0 {
		if d, ok := generic(res.Arguments[0]).(map[string]any); ok {
			for _, l := range d {
				ll, _ := l.([]any)
				for _, e := range ll {
					if id, ok := num(e); ok {
						x.baseRegs[id] = true
					}
				}
			}
		}
	}
	cli.Send() <- &wamp.Goodbye{Reason: wamp.CloseRealm, Details: wamp.Dict{}}
	for range cli.Recv() {
	}
	synctest.Wait()
}

// ---------------------------------------------------------------------------
// C12: a lousy in-process recipient scribbles over what it received

func poisonMsg(m wamp.Message) {
	switch m := m.(type) {
	case *wamp.Event:
		poisonParts(m.Details, m.Arguments, m.ArgumentsKw)
	case *wamp.Invocation:
		poisonParts(m.Details, m.Arguments, m.ArgumentsKw)
	case *wamp.Result:
		// (what a meta procedure answered must be the caller's own copy)
		poisonDeep(m.Arguments)
		poisonDeep(m.ArgumentsKw)
	case *wamp.Welcome:
		poisonDeep(m.Details)
	}
}

// poisonDeep scribbles over every container reachable from v.
func poisonDeep(v any) {
	switch v := v.(type) {
	case wamp.Dict:
		if v == nil {
			return
		}
		for k, e := range v {
			switch e.(type) {
			case wamp.Dict, wamp.List, map[string]any, []any:
				poisonDeep(e)
			default:
				v[k] = "POISON"
			}
		}
		v["poison"] = "POISON"
	case map[string]any:
		poisonDeep(wamp.Dict(v))
	case wamp.List:
		for i, e := range v {
			switch e.(type) {
			case wamp.Dict, wamp.List, map[string]any, []any:
				poisonDeep(e)
			default:
				v[i] = "POISON"
			}
		}
	case []any:
		poisonDeep(wamp.List(v))
	}
}

func poisonParts(d wamp.Dict, a wamp.List, kw wamp.Dict) {
	if d != nil {
		d["poison"] = "POISON"
		d["topic"] = "poison.topic"
	}
	for i := range a {
		a[i] = "POISON"
	}
	for k := range kw {
		kw[k] = "POISON"
	}
}

// ---------------------------------------------------------------------------
// C10: table driven authorizer

type tableAuthorizer struct{ rules []Rule }

func (t *tableAuthorizer) Authorize(sess *wamp.Session, msg wamp.Message) (bool, error) {
	sess.Lock()
	role, _ := wamp.AsString(sess.Details["authrole"])
	method, _ := wamp.AsString(sess.Details["authmethod"])
	sess.Unlock()
	local := method == "local"
	mt := msg.MessageType().String()
	for _, r := range t.rules {
		if r.Mt != mt {
			continue
		}
		switch r.Who {
		case "any":
		case "local":
			if !local {
				continue
			}
		case "remote":
			if local {
				continue
			}
		default:
			if role != r.Who {
				continue
			}
		}
		switch r.Dec {
		case "deny":
			return false, nil
		case "fail":
			return false, errors.New("authorizer failed")
		case "rewrite":
			switch m := msg.(type) {
			case *wamp.Publish:
				m.Arguments, m.ArgumentsKw = payload("rw")
			case *wamp.Call:
				if !strings.HasPrefix(string(m.Procedure), "wamp.") {
					m.Arguments, m.ArgumentsKw = payload("rw")
				}
			case *wamp.Yield:
				m.Arguments, m.ArgumentsKw = payload("rw")
			case *wamp.Error:
				m.Arguments, m.ArgumentsKw = payload("rw")
			}
			return true, nil
		}
		return true, nil
	}
	return true, nil
}

// ---------------------------------------------------------------------------
// C04: hostile client messages

var hostileSeq uint64

type unknownMsg struct{}

func (unknownMsg) MessageType() wamp.MessageType { return wamp.MessageType(9999) }

func hostileValue(kind string) any {
	switch kind {
	case "null":
		return nil
	case "zero":
		return 0
	case "neg":
		return -1
	case "big":
		return int64(1<<53 + 1)
	case "float":
		return 1.5
	case "str":
		return "x"
	case "empty":
		return ""
	case "bytes":
		return []byte{0xff, 0x00, 0x80}
	case "true":
		return true
	case "list":
		return wamp.List{1, "a", nil}
	case "dict":
		return wamp.Dict{"a": 1, "": nil}
	case "nested":
		var v any = wamp.Dict{}
		for i := 0; i < 40; i++ {
			v = wamp.List{wamp.Dict{"n": v}}
		}
		return v
	case "uri":
		return wamp.URI("a..b c#")
	}
	return nil
}

func hostileID(kind string) wamp.ID {
	switch kind {
	case "zero", "null", "empty":
		return 0
	case "big":
		return wamp.ID(1<<53 + 1)
	case "neg":
		return wamp.ID(^uint64(0))
	case "float", "true":
		return 1
	}
	return wamp.ID(777777)
}

func hostileURI(kind string) wamp.URI {
	switch kind {
	case "null", "empty", "zero":
		return ""
	case "uri":
		return "a..b c#"
	case "nested", "list":
		return wamp.URI(strings.Repeat("h.", 3000) + "x")
	case "bytes":
		return wamp.URI([]byte{0xff, 0xfe, '.', 0x00})
	}
	return "h.other"
}

// hostileMessage builds the message of a mutant. inv is a live invocation id
// of the sender (0 if none), call a pending call request of the sender.
func hostileMessage(mu Mutant, inv, call wamp.ID) wamp.Message {
	v := hostileValue(mu.Kind)
	opt := func(base wamp.Dict) wamp.Dict {
		if mu.Pos != "none" && mu.Pos != "request" && mu.Pos != "args" && mu.Pos != "kwargs" {
			base[mu.Pos] = v
		}
		return base
	}
	hostileSeq++
	req := wamp.ID(900000 + hostileSeq)
	if mu.Pos == "request" {
		req = hostileID(mu.Kind)
	}
	args := wamp.List{"h"}
	kw := wamp.Dict{"k": "h"}
	if mu.Pos == "args" {
		if l, ok := v.(wamp.List); ok {
			args = l
		} else {
			args = wamp.List{v}
		}
	}
	if mu.Pos == "kwargs" {
		if d, ok := v.(wamp.Dict); ok {
			kw = d
		} else {
			kw = wamp.Dict{"v": v, "": v}
		}
	}
	switch mu.T {
	case "HELLO":
		d := helloDetails(Join{Authid: "hostile", Local: true})
		switch mu.Pos {
		case "roles.callee":
			d["roles"].(wamp.Dict)["callee"] = v
		case "roles.callee.features":
			d["roles"].(wamp.Dict)["callee"] = wamp.Dict{"features": v}
		case "none":
		default:
			d[mu.Pos] = v
		}
		return &wamp.Hello{Realm: realmName(0), Details: d}
	case "PUBLISH":
		o := wamp.Dict{"acknowledge": true}
		if strings.HasPrefix(mu.Pos, "ppt_") && mu.Pos != "ppt_scheme" {
			o["ppt_scheme"] = "mqtt"
		}
		return &wamp.Publish{Request: req, Options: opt(o), Topic: "h.t", Arguments: args, ArgumentsKw: kw}
	case "SUBSCRIBE":
		return &wamp.Subscribe{Request: req, Options: opt(wamp.Dict{}), Topic: "h.t2"}
	case "UNSUBSCRIBE":
		id := wamp.ID(777777)
		if mu.Pos == "subscription" {
			id = hostileID(mu.Kind)
		}
		return &wamp.Unsubscribe{Request: req, Subscription: id}
	case "REGISTER":
		return &wamp.Register{Request: req, Options: opt(wamp.Dict{}), Procedure: "h.proc2"}
	case "UNREGISTER":
		id := wamp.ID(777777)
		if mu.Pos == "registration" {
			id = hostileID(mu.Kind)
		}
		return &wamp.Unregister{Request: req, Registration: id}
	case "CALL":
		o := wamp.Dict{}
		if strings.HasPrefix(mu.Pos, "ppt_") && mu.Pos != "ppt_scheme" {
			o["ppt_scheme"] = "mqtt"
		}
		return &wamp.Call{Request: req, Options: opt(o), Procedure: "h.proc", Arguments: args, ArgumentsKw: kw}
	case "CANCEL":
		r := call
		if mu.Pos == "request" {
			r = hostileID(mu.Kind)
		}
		return &wamp.Cancel{Request: r, Options: opt(wamp.Dict{})}
	case "YIELD":
		r := inv
		if mu.Pos == "request" {
			r = hostileID(mu.Kind)
		}
		o := wamp.Dict{}
		if strings.HasPrefix(mu.Pos, "ppt_") && mu.Pos != "ppt_scheme" {
			o["ppt_scheme"] = "mqtt"
		}
		return &wamp.Yield{Request: r, Options: opt(o), Arguments: args, ArgumentsKw: kw}
	case "ERROR":
		e := &wamp.Error{Type: wamp.INVOCATION, Request: inv, Details: wamp.Dict{}, Error: "h.error", Arguments: args, ArgumentsKw: kw}
		switch mu.Pos {
		case "type":
			e.Type = wamp.MessageType(hostileID(mu.Kind) % 100000)
		case "request":
			e.Request = hostileID(mu.Kind)
		case "details":
			if d, ok := v.(wamp.Dict); ok {
				e.Details = d
			} else {
				e.Details = nil
			}
		}
		return e
	case "GOODBYE":
		g := &wamp.Goodbye{Reason: wamp.CloseRealm, Details: wamp.Dict{}}
		if mu.Pos == "reason" {
			g.Reason = hostileURI(mu.Kind)
		}
		if mu.Pos == "details" {
			if d, ok := v.(wamp.Dict); ok {
				g.Details = d
			} else {
				g.Details = nil
			}
		}
		return g
	case "AUTHENTICATE":
		a := &wamp.Authenticate{Signature: "sig", Extra: wamp.Dict{}}
		if mu.Pos == "signature" {
			a.Signature = fmt.Sprint(v)
		}
		if mu.Pos == "extra" {
			if d, ok := v.(wamp.Dict); ok {
				a.Extra = d
			} else {
				a.Extra = nil
			}
		}
		return a
	case "WELCOME":
		return &wamp.Welcome{ID: 1, Details: wamp.Dict{}}
	case "ABORT":
		return &wamp.Abort{Reason: "h.abort", Details: nil}
	case "CHALLENGE":
		return &wamp.Challenge{AuthMethod: "ticket"}
	case "PUBLISHED":
		return &wamp.Published{Request: 1, Publication: 1}
	case "SUBSCRIBED":
		return &wamp.Subscribed{Request: 1, Subscription: 1}
	case "UNSUBSCRIBED":
		return &wamp.Unsubscribed{Request: 1}
	case "EVENT":
		return &wamp.Event{Subscription: 1, Publication: 1}
	case "REGISTERED":
		return &wamp.Registered{Request: 1, Registration: 1}
	case "UNREGISTERED":
		return &wamp.Unregistered{Request: 1}
	case "RESULT":
		return &wamp.Result{Request: call}
	case "INVOCATION":
		return &wamp.Invocation{Request: 1, Registration: 1}
	case "INTERRUPT":
		return &wamp.Interrupt{Request: inv}
	}
	return unknownMsg{}
}

// hostile sends the mutant from the offender named in the step (or from a
// fresh peer in the prehello phase).
func (x *Exec) hostile(in Input) {
	mu := in.Hm
	p := x.peers[in.S]
	var inv, call wamp.ID
	if p != nil {
		inv, call = p.lastInv, p.lastCall
	}
	msg := hostileMessage(mu, inv, call)
	switch mu.Phase {
	case "prehello":
		q := x.newPeer(in.S+"pre", Join{Color: "tainted", Local: true})
		q.send(msg)
		synctest.Wait()
		q.drop()
		return
	case "aftergoodbye":
		if p == nil || p.dropped {
			return
		}
		p.send(&wamp.Goodbye{Reason: wamp.CloseRealm, Details: wamp.Dict{}})
		p.send(msg)
	default:
		if p == nil || p.dropped {
			return
		}
		p.send(msg)
	}
	if mu.Drop {
		synctest.Wait()
		p.drop()
	}
}

// drop closes the client side of the transport abruptly.
func (p *peer) drop() {
	if p.dropped {
		return
	}
	p.dropped = true
	close(p.stop)
	synctest.Wait()
	p.cli.Close()
}

// sendConcurrent submits an ordinary input without waiting for anything.
func (x *Exec) sendConcurrent(p *peer, in Input) {
	req := wamp.ID(in.Req)
	uri := wamp.URI(unchars(in.URI))
	a, kw := payload(in.Tag)
	switch in.Op {
	case "publish":
		p.send(&wamp.Publish{Request: req, Options: pubOptions(x, in.O), Topic: uri, Arguments: a, ArgumentsKw: kw})
	case "subscribe":
		o := wamp.Dict{}
		if in.O.Match != "" {
			o["match"] = in.O.Match
		}
		p.mu.Lock()
		p.subReq[req] = subInfo{string(uri), in.O.Match}
		p.mu.Unlock()
		p.send(&wamp.Subscribe{Request: req, Options: o, Topic: uri})
	case "unsubscribe":
		p.mu.Lock()
		p.unReq[req] = x.subC.raw(in.ID)
		p.mu.Unlock()
		p.send(&wamp.Unsubscribe{Request: req, Subscription: x.subC.raw(in.ID)})
	case "register":
		p.send(&wamp.Register{Request: req, Options: wamp.Dict{}, Procedure: uri})
	case "call":
		o := wamp.Dict{}
		if in.O.Tmo != 0 {
			o["timeout"] = in.O.Tmo
		}
		p.send(&wamp.Call{Request: req, Options: o, Procedure: uri, Arguments: a, ArgumentsKw: kw})
	case "yield":
		p.send(&wamp.Yield{Request: wamp.ID(in.ID), Options: wamp.Dict{}, Arguments: a, ArgumentsKw: kw})
	case "cancel":
		p.send(&wamp.Cancel{Request: req, Options: wamp.Dict{}})
	case "metacall":
		args, k := x.metaArgs(in)
		p.send(&wamp.Call{Request: req, Options: wamp.Dict{}, Procedure: uri, Arguments: args, ArgumentsKw: k})
	case "leave":
		if in.How == "goodbye" {
			p.send(&wamp.Goodbye{Reason: wamp.CloseRealm, Details: wamp.Dict{}})
		} else {
			p.dropped = true
			close(p.stop)
			p.cli.Close()
		}
	}
}

// ---------------------------------------------------------------------------
// C07 / C08: bursts - several sessions send their programs concurrently

// await blocks until the peer's inbox holds a message satisfying ok (or five
// seconds of virtual time have passed: the router did not answer).
func (x *Exec) await(p *peer, ok func(wamp.Message) bool) (wamp.Message, bool) {
	deadline := time.After(5 * time.Second)
	seen := 0
	for {
		p.mu.Lock()
		for ; seen < len(p.inbox); seen++ {
			if m := p.inbox[seen].m; m != nil && ok(m) {
				p.mu.Unlock()
				return m, true
			}
		}
		p.mu.Unlock()
		select {
		case <-p.notify:
		case <-deadline:
			return nil, false
		case <-x.quit:
			return nil, false
		}
	}
}

// churn: request/reply loops of one session inside a burst (C07: workers must not
// wait on each other in a cycle). regchurn registers and unregisters a procedure
// of its own n times; metaloop calls a meta procedure n times.
func (x *Exec) churn(p *peer, op Input) {
	base := wamp.ID(op.Req)
	for i := 0; i < op.ID; i++ {
		req := base + wamp.ID(2*i)
		switch op.Op {
		case "regchurn":
			p.send(&wamp.Register{Request: req, Options: wamp.Dict{}, Procedure: wamp.URI("churn." + p.name)})
			m, ok := x.await(p, func(m wamp.Message) bool {
				switch m := m.(type) {
				case *wamp.Registered:
					return m.Request == req
				case *wamp.Error:
					return m.Request == req
				}
				return false
			})
			if !ok {
				return
			}
			if r, isReg := m.(*wamp.Registered); isReg {
				p.mu.Lock()
				p.unReq[req+1] = r.Registration
				p.mu.Unlock()
				p.send(&wamp.Unregister{Request: req + 1, Registration: r.Registration})
				if _, ok := x.await(p, func(m wamp.Message) bool {
					switch m := m.(type) {
					case *wamp.Unregistered:
						return m.Request == req+1
					case *wamp.Error:
						return m.Request == req+1
					}
					return false
				}); !ok {
					return
				}
			}
		case "callloop":
			// calls the procedure another session keeps registering and unregistering
			p.mu.Lock()
			p.callReq[req] = "churn." + op.Tag
			p.mu.Unlock()
			p.send(&wamp.Call{Request: req, Options: wamp.Dict{"receive_progress": true}, Procedure: wamp.URI("churn." + op.Tag),
				Arguments: wamp.List{"C." + strconv.Itoa(i)}, ArgumentsKw: wamp.Dict{"k": "C." + strconv.Itoa(i)}})
			if _, ok := x.await(p, func(m wamp.Message) bool {
				switch m := m.(type) {
				case *wamp.Result:
					prog, _ := m.Details["progress"].(bool)
					return m.Request == req && !prog
				case *wamp.Error:
					return m.Request == req
				}
				return false
			}); !ok {
				return
			}
		case "metaloop":
			p.mu.Lock()
			p.callReq[req] = "wamp.session.count"
			p.mu.Unlock()
			p.send(&wamp.Call{Request: req, Options: wamp.Dict{}, Procedure: "wamp.session.count"})
			if _, ok := x.await(p, func(m wamp.Message) bool {
				switch m := m.(type) {
				case *wamp.Result:
					return m.Request == req
				case *wamp.Error:
					return m.Request == req
				}
				return false
			}); !ok {
				return
			}
		}
	}
}

// slowCaller: a fresh callee answers a call of a fresh caller with n progressive
// results and a final one while the caller, whose queue holds q messages, does not
// read for three seconds (C08: yield order survives the result-retry path).
func (x *Exec) slowCaller(n, q int) {
	callee := x.newPeer("ze", Join{Authid: "u1", Feats: []string{"callee:progressive_call_results", "callee:call_canceling"}, Local: true})
	caller := x.newPeer("zc", Join{Authid: "u2", Local: true, Q: q})
	for _, p := range []*peer{callee, caller} {
		p.send(&wamp.Hello{Realm: x.uri, Details: helloDetails(Join{Authid: "u1", Feats: []string{"callee:progressive_call_results", "callee:call_canceling"}, Local: true})})
		p.joined = true
	}
	synctest.Wait()
	callee.send(&wamp.Register{Request: 1, Options: wamp.Dict{}, Procedure: "slow.proc"})
	synctest.Wait()
	callee.mu.Lock()
	callee.respond = n
	callee.mu.Unlock()
	caller.stall <- struct{}{}
	a, kw := payload("Bslow.1")
	caller.callReq[7] = "slow.proc"
	caller.send(&wamp.Call{Request: 7, Options: wamp.Dict{"receive_progress": true}, Procedure: "slow.proc", Arguments: a, ArgumentsKw: kw})
	time.Sleep(3 * time.Second)
	caller.resume <- struct{}{}
	time.Sleep(70 * time.Second)
}

// alive: a fresh session joins and asks wamp.session.count (C07: whatever happened
// before, the router still serves requests).
func (x *Exec) signOfLife() {
	p := x.newPeer("zz", Join{Authid: "u1", Local: true})
	p.send(&wamp.Hello{Realm: x.uri, Details: helloDetails(Join{Authid: "u1", Local: true})})
	p.joined = true
	synctest.Wait()
	p.callReq[1] = "wamp.session.count"
	p.send(&wamp.Call{Request: 1, Options: wamp.Dict{}, Procedure: "wamp.session.count"})
	time.Sleep(10 * time.Second)
}

func (x *Exec) burst(in Input) {
	if in.How == "slow" {
		x.slowCaller(in.ID, in.Ms)
		return
	}
	var wg sync.WaitGroup
	for _, pr := range in.Prog {
		p := x.peers[pr.S]
		if p == nil || !p.joined || p.dropped || p.gone {
			continue
		}
		for _, op := range pr.Ops {
			if op.Op == "respond" {
				p.mu.Lock()
				p.respond = op.ID
				p.mu.Unlock()
			}
		}
	}
	for _, pr := range in.Prog {
		p := x.peers[pr.S]
		if p == nil || !p.joined || p.dropped || p.gone {
			continue
		}
		wg.Add(1)
		go func(p *peer, ops []Input) {
			defer wg.Done()
			for _, op := range ops {
				if op.Op == "regchurn" || op.Op == "metaloop" || op.Op == "callloop" {
					x.churn(p, op)
				} else {
					x.sendConcurrent(p, op)
				}
			}
		}(p, pr.Ops)
	}
	wg.Wait()
}
