package harness

import (
	"bufio"
	"encoding/json"
	"math/rand"
	"os"
	"sort"
	"strconv"
	"testing"

	"github.com/gammazero/nexus/v3/wamp"
)

// C19: the pure functions of the wamp package are evaluated on an enumerated
// input space; inputs and results are logged for validation by spec/Funcs.tla.
// Nothing is judged here.

type symID struct {
	B string `json:"b"`
	O int64  `json:"o"`
}

const (
	maxID   = uint64(1) << 53
	midBase = uint64(1) << 40
	near    = uint64(1) << 21
)

func sym(v uint64) symID {
	switch {
	case v < near:
		return symID{"ZERO", int64(v)}
	case v+near > midBase && v < midBase+near:
		return symID{"MID", int64(v) - int64(midBase)}
	case v+near > maxID && v < maxID+near:
		return symID{"MAX", int64(v) - int64(maxID)}
	case v >= maxID+near:
		return symID{"OVER", 0}
	}
	return symID{"MID", 1 << 30}
}

func conc(s symID) uint64 {
	switch s.B {
	case "ZERO":
		return uint64(s.O)
	case "MID":
		return uint64(int64(midBase) + s.O)
	case "MAX":
		return uint64(int64(maxID) + s.O)
	}
	return uint64(1)<<63 + 5
}

type funcLine struct {
	F    string   `json:"f"`
	U    []string `json:"u,omitempty"`
	P    []string `json:"p,omitempty"`
	R    any      `json:"r,omitempty"`
	Last *symID   `json:"last,omitempty"`
	ID   *symID   `json:"id,omitempty"`
	Upd  *symID   `json:"upd,omitempty"`
	From *symID   `json:"from,omitempty"`
	V    *symID   `json:"v,omitempty"`
	Kind string   `json:"kind,omitempty"`
	IDs  []symID  `json:"ids,omitempty"`
}

func enumStrings(alpha []string, maxLen int, f func([]string)) {
	var rec func(cur []string)
	rec = func(cur []string) {
		f(cur)
		if len(cur) == maxLen {
			return
		}
		for _, c := range alpha {
			rec(append(cur, c))
		}
	}
	rec([]string{})
}

func TestFuncs(t *testing.T) {
	outFile := os.Getenv("VERIF_OUT")
	if outFile == "" {
		t.Skip("VERIF_OUT not set")
	}
	maxLen, _ := strconv.Atoi(os.Getenv("VERIF_LEN"))
	if maxLen == 0 {
		maxLen = 4
	}
	nrand, _ := strconv.Atoi(os.Getenv("VERIF_NRAND"))
	seed, _ := strconv.ParseInt(os.Getenv("VERIF_SEED"), 10, 64)
	wide := os.Getenv("VERIF_TIER") == "thorough"
	out, err := os.Create(outFile)
	if err != nil {
		t.Fatal(err)
	}
	defer out.Close()
	w := bufio.NewWriterSize(out, 1<<20)
	defer w.Flush()
	enc := json.NewEncoder(w)
	enc.SetEscapeHTML(false)
	emit := func(l funcLine) {
		if l.U == nil && (l.F == "valid" || l.F == "pmatch" || l.F == "wmatch") {
			l.U = []string{}
		}
		if err := enc.Encode(l); err != nil {
			t.Fatal(err)
		}
	}
	type lineU struct {
		F string   `json:"f"`
		U []string `json:"u"`
		P []string `json:"p,omitempty"`
		R any      `json:"r"`
	}
	emitU := func(f string, u, p []string, r any) {
		l := lineU{F: f, U: append([]string{}, u...), R: r}
		if p != nil {
			l.P = append([]string{}, p...)
		}
		if f != "valid" && l.P == nil {
			l.P = []string{}
		}
		if err := enc.Encode(l); err != nil {
			t.Fatal(err)
		}
	}
	type lineP struct {
		F string   `json:"f"`
		U []string `json:"u"`
		P []string `json:"p"`
		R bool     `json:"r"`
	}
	valid := func(u []string) {
		s := wamp.URI(unchars(u))
		emitU("valid", u, nil, []bool{
			s.ValidURI(false, wamp.MatchExact), s.ValidURI(false, wamp.MatchPrefix), s.ValidURI(false, wamp.MatchWildcard),
			s.ValidURI(true, wamp.MatchExact), s.ValidURI(true, wamp.MatchPrefix), s.ValidURI(true, wamp.MatchWildcard)})
	}
	match := func(u, p []string) {
		us, ps := wamp.URI(unchars(u)), wamp.URI(unchars(p))
		if err := enc.Encode(lineP{"pmatch", append([]string{}, u...), append([]string{}, p...), us.PrefixMatch(ps)}); err != nil {
			t.Fatal(err)
		}
		if err := enc.Encode(lineP{"wmatch", append([]string{}, u...), append([]string{}, p...), us.WildcardMatch(ps)}); err != nil {
			t.Fatal(err)
		}
	}

	// 1. validation: every string up to maxLen over one representative per character class
	alpha := []string{"a", "z", "0", "_", "A", " ", ".", "#", "é"}
	enumStrings(alpha, maxLen, valid)
	// ... and seeded longer ones over a wider alphabet
	rnd := rand.New(rand.NewSource(seed))
	widea := []string{"a", "b", "k", "z", "0", "9", "_", "A", "Z", "-", "+", "/", ":", " ", "\t", "\n", "\r", "\f", ".", ".", ".", "#", "é", "ß", "日", "ÿ"}
	comp := func(strictish bool) []string {
		n := rnd.Intn(4)
		if rnd.Intn(6) == 0 {
			n = 0
		}
		c := []string{}
		for i := 0; i < n; i++ {
			if strictish {
				c = append(c, widea[rnd.Intn(7)])
			} else {
				c = append(c, widea[rnd.Intn(len(widea))])
			}
		}
		return c
	}
	randURI := func() []string {
		u := []string{}
		strictish := rnd.Intn(2) == 0
		k := 1 + rnd.Intn(6)
		for i := 0; i < k; i++ {
			if i > 0 {
				u = append(u, ".")
			}
			c := comp(strictish)
			if len(c) == 0 && rnd.Intn(3) != 0 {
				c = []string{"x"}
			}
			u = append(u, c...)
		}
		return u
	}
	for i := 0; i < nrand; i++ {
		valid(randURI())
	}

	// 2. matching: every pair over a three letter alphabet, and seeded near-misses
	var small [][]string
	ml := 4
	if wide {
		ml = 5
	}
	enumStrings([]string{"a", "b", "."}, ml, func(u []string) { small = append(small, append([]string{}, u...)) })
	pats := small
	if wide {
		pats = nil
		for _, p := range small {
			if len(p) <= 4 {
				pats = append(pats, p)
			}
		}
	}
	for _, u := range small {
		for _, p := range pats {
			match(u, p)
		}
	}
	for i := 0; i < nrand; i++ {
		u := randURI()
		p := append([]string{}, u...)
		switch rnd.Intn(5) {
		case 0: // cut: a prefix
			p = p[:rnd.Intn(len(p)+1)]
		case 1: // blank one component
			var q []string
			skip := rnd.Intn(6)
			ci := 0
			for _, c := range p {
				if c == "." {
					ci++
					q = append(q, c)
				} else if ci != skip {
					q = append(q, c)
				}
			}
			p = q
		case 2: // change one character
			if len(p) > 0 {
				p[rnd.Intn(len(p))] = widea[rnd.Intn(len(widea))]
			}
		case 3: // one more component
			p = append(p, ".")
		}
		if p == nil {
			p = []string{}
		}
		match(u, p)
	}

	// 3. ids: new / duplicate / wrap-around window
	offs := []int64{0, 1, 2, 3, 250, 498, 499, 500, 501, 502, 1000}
	var lasts, ids []symID
	for _, o := range offs {
		lasts = append(lasts, symID{"ZERO", o})
		ids = append(ids, symID{"ZERO", o})
		if o != 0 {
			lasts = append(lasts, symID{"MAX", -o})
		}
		ids = append(ids, symID{"MAX", -o})
	}
	lasts = append(lasts, symID{"MAX", 0}, symID{"MID", 0}, symID{"MID", 7})
	ids = append(ids, symID{"MAX", 1}, symID{"MAX", 2}, symID{"MID", 0}, symID{"MID", 7}, symID{"MID", 8}, symID{"OVER", 0})
	if wide {
		for o := int64(0); o <= 520; o++ {
			ids = append(ids, symID{"ZERO", o}, symID{"MAX", -o})
		}
		for o := int64(490); o <= 510; o++ {
			lasts = append(lasts, symID{"MAX", -o}, symID{"ZERO", o})
		}
		for o := int64(1); o <= 8; o++ {
			lasts = append(lasts, symID{"MAX", -o}, symID{"ZERO", o})
		}
	}
	for _, l := range lasts {
		for _, id := range ids {
			s := wamp.NewSession(nil, 1, nil, nil)
			s.VerifSetLastRecvID(wamp.ID(conc(l)))
			l, id := l, id
			isNew := s.IsNewRecvID(wamp.ID(conc(id)))
			upd := s.UpdateLastRecvID(wamp.ID(conc(id)))
			// what the session remembers afterwards, probed without a getter: the
			// remembered id is the unique in-range id that is not new but whose successor ... -
			// simpler: UpdateLastRecvID reports whether it stored the id
			after := l
			if upd {
				after = id
			}
			// the stored value is observable: the same id is now not new
			if upd && s.IsNewRecvID(wamp.ID(conc(id))) {
				after = symID{"OVER", -1} // stored something else
			}
			emit(funcLine{F: "isnew", Last: &l, ID: &id, R: isNew, Upd: &after})
		}
	}
	// 4. the session scoped generator
	var g wamp.IDGen
	var first []symID
	for i := 0; i < 5; i++ {
		first = append(first, sym(uint64(g.Next())))
	}
	emit(funcLine{F: "first", IDs: first})
	for _, from := range []symID{{"ZERO", 0}, {"ZERO", 1}, {"ZERO", 41}, {"MID", 0}, {"MAX", -2}, {"MAX", -1}, {"MAX", 0}} {
		var g wamp.IDGen
		g.VerifSetNext(conc(from))
		from := from
		cur := from
		for i := 0; i < 4; i++ {
			nx := sym(uint64(g.Next()))
			c := cur
			emit(funcLine{F: "next", From: &c, R: nx})
			cur = nx
		}
	}
	// 5. ids read from messages
	vals := []symID{{"ZERO", -1}, {"ZERO", 0}, {"ZERO", 1}, {"ZERO", 2}, {"MID", 0}, {"MID", 3}, {"MAX", -1}, {"MAX", 0}, {"MAX", 1}, {"MAX", 2}, {"OVER", 0}}
	for _, v := range vals {
		c := conc(v)
		neg := v.B == "ZERO" && v.O < 0
		cands := map[string]any{}
		if neg {
			cands["int64"], cands["int"], cands["int32"], cands["float64"] = int64(v.O), int(v.O), int32(v.O), float64(v.O)
		} else {
			cands["uint64"], cands["uint"], cands["ID"] = c, uint(c), wamp.ID(c)
			if c < 1<<63 {
				cands["int64"], cands["int"] = int64(c), int(c)
			}
			if c < 1<<31 {
				cands["int32"], cands["uint32"], cands["float32"] = int32(c), uint32(c), float32(c)
			}
			if float64(c) == float64(c) && uint64(float64(c)) == c {
				cands["float64"] = float64(c)
			}
		}
		kinds := []string{}
		for kind := range cands {
			kinds = append(kinds, kind)
		}
		sort.Strings(kinds)
		for _, kind := range kinds {
			x := cands[kind]
			id, ok := wamp.AsID(x)
			v := v
			got := sym(uint64(id))
			emit(funcLine{F: "asid", Kind: kind, V: &v, R: ok, ID: &got})
		}
	}
	// 6. router-wide random ids
	n := 300
	if wide {
		n = 5000
	}
	for i := 0; i < n; i++ {
		id := sym(uint64(wamp.GlobalID()))
		emit(funcLine{F: "global", ID: &id})
	}
}
