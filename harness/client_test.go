package harness

import (
	"bufio"
	"bytes"
	"context"
	"encoding/json"
	"errors"
	"io"
	"log"
	"os"
	"runtime"
	"strconv"
	"sync"
	"testing"
	"testing/synctest"
	"time"

	"github.com/gammazero/nexus/v3/client"
	"github.com/gammazero/nexus/v3/transport"
	"github.com/gammazero/nexus/v3/wamp"
)

// Client scenarios (C16, C17): the harness plays a scripted router on the other
// end of a linked peer; application goroutines use the client API. Everything
// observable is logged for validation against spec/Cli.tla (TraceCli.tla).

type CliInput struct {
	Op   string `json:"op"`
	G    string `json:"g"`
	Kind string `json:"kind"`
	Name string `json:"name"`
	Prog bool   `json:"prog"`
	ID   int    `json:"id"`
	Mk   string `json:"mk"`
	A    int    `json:"a"`
	Ms   int    `json:"ms"`
	Mode string `json:"mode"`
	Inv  int    `json:"inv"`
	Reg  int    `json:"reg"`
	Tmo  int    `json:"tmo"`
	How  string `json:"how"`
	Sub  int    `json:"sub"`
	Hm   Mutant `json:"hm"`
}

type CliScenario struct {
	ID    string     `json:"id"`
	Rt    int        `json:"rt"`
	Steps []CliInput `json:"steps"`
}

type CliRet struct {
	G   string `json:"g"`
	Out string `json:"out"`
	Req int    `json:"req"`
}

type CliEmit struct {
	K   string `json:"k"`
	Req int    `json:"req"`
	X   string `json:"x"`
}

type CliCb struct {
	K string `json:"k"`
	A int    `json:"a"`
	B int    `json:"b"`
}

type CliEvent struct {
	Ev       string    `json:"ev"`
	Scn      string    `json:"scn"`
	Rt       int       `json:"rt"`
	In       CliInput  `json:"in"`
	Ret      []CliRet  `json:"ret"`
	Emit     []CliEmit `json:"emit"`
	Cb       []CliCb   `json:"cb"`
	Done     bool      `json:"done"`
	Closeret bool      `json:"closeret"`
	Now      int       `json:"now"`
	Gor      int       `json:"gor"`
	Pending  int       `json:"pending"`
	Blocked  bool      `json:"blocked"`
}

type cliExec struct {
	enc   *json.Encoder
	scn   string
	start time.Time
	c     *client.Client
	rtr   wamp.Peer

	mu       sync.Mutex
	rets     []CliRet
	emits    []CliEmit
	cbs      []CliCb
	closeret bool
	pending  int
	blocked  bool
	cancels  map[string]context.CancelFunc
	release  map[int]chan string
	hostile  map[wamp.ID]bool
	busy     map[string]bool
	replyBye bool
	quit     chan struct{}
	deafCh   chan struct{}
}

func (x *cliExec) nowMs() int { return int(time.Since(x.start) / time.Millisecond) }

func intArg(l wamp.List) int {
	if len(l) == 0 {
		return 0
	}
	n, _ := wamp.AsInt64(l[0])
	return int(n)
}

// routerSide reads everything the client sends.
func (x *cliExec) routerSide() {
	for {
		select {
		case m, ok := <-x.rtr.Recv():
			if !ok {
				return
			}
			e := CliEmit{K: m.MessageType().String()}
			switch m := m.(type) {
			case *wamp.Subscribe:
				e.Req = int(m.Request)
			case *wamp.Unsubscribe:
				e.Req, e.X = int(m.Request), strconv.Itoa(int(m.Subscription))
			case *wamp.Register:
				e.Req = int(m.Request)
			case *wamp.Unregister:
				e.Req, e.X = int(m.Request), strconv.Itoa(int(m.Registration))
			case *wamp.Publish:
				e.Req = int(m.Request)
			case *wamp.Call:
				e.Req = int(m.Request)
				if p, _ := m.Options["progress"].(bool); p {
					e.X = "p" // a chunk of a progressive call, more follow
				}
			case *wamp.Cancel:
				e.Req = int(m.Request)
				e.X, _ = wamp.AsString(m.Options["mode"])
			case *wamp.Yield:
				e.Req = int(m.Request)
				if p, _ := m.Options["progress"].(bool); p {
					e.X = "p"
				}
			case *wamp.Error:
				e.Req, e.X = int(m.Request), string(m.Error)
			case *wamp.Goodbye:
				if x.replyBye {
					x.toClient(&wamp.Goodbye{Reason: wamp.CloseGoodbyeAndOut, Details: wamp.Dict{}})
				}
			}
			x.mu.Lock()
			x.emits = append(x.emits, e)
			x.mu.Unlock()
		case <-x.deafCh:
			// the router stops reading (and keeps the connection)
			<-x.quit
			return
		case <-x.quit:
			return
		}
	}
}

// toClient sends without ever blocking the harness: a client that stopped
// reading shows up as missing observations, not as a stuck harness.
func (x *cliExec) toClient(m wamp.Message) {
	defer func() {
		if recover() != nil { // the transport was closed by a drop step
		}
	}()
	select {
	case x.rtr.Send() <- m:
	default:
		x.mu.Lock()
		x.blocked = true
		x.mu.Unlock()
	}
}

func (x *cliExec) ret(g, out string, req int) {
	x.mu.Lock()
	x.rets = append(x.rets, CliRet{g, out, req})
	x.pending--
	delete(x.busy, g)
	x.mu.Unlock()
}

func (x *cliExec) cb(k string, a, b int) {
	x.mu.Lock()
	x.cbs = append(x.cbs, CliCb{k, a, b})
	x.mu.Unlock()
}

var errFeed = errors.New("the feed of the progressive call failed")

func classify(err error) string {
	switch {
	case err == nil:
		return "ok"
	case errors.Is(err, client.ErrReplyTimeout):
		return "timeout"
	case errors.Is(err, client.ErrNotConn):
		return "notconn"
	case errors.Is(err, context.Canceled), errors.Is(err, context.DeadlineExceeded):
		return "ctx"
	case errors.Is(err, client.ErrNotSubscribed), errors.Is(err, client.ErrNotRegistered):
		return "nosuch"
	}
	var rpc client.RPCError
	if errors.As(err, &rpc) {
		return "rpcerr"
	}
	if bytes.Contains([]byte(err.Error()), []byte("received unexpected")) {
		return "unexpected"
	}
	return "err"
}

func (x *cliExec) eventHandler(ev *wamp.Event) {
	x.cb("event", int(ev.Subscription), intArg(ev.Arguments))
}

func (x *cliExec) invHandler(ctx context.Context, inv *wamp.Invocation) client.InvokeResult {
	id := int(inv.Request)
	x.mu.Lock()
	host := x.hostile[inv.Request]
	ch := x.release[id]
	if ch == nil {
		ch = make(chan string, 1)
		x.release[id] = ch
	}
	x.mu.Unlock()
	if host {
		return client.InvokeResult{Args: wamp.List{"hostile"}}
	}
	x.cb("invstart", id, 0)
	for {
		select {
		case how := <-ch:
			switch how {
			case "error":
				return client.InvokeResult{Err: "app.error"}
			case "prog":
				// a progressive result from the running handler
				ok := 0
				if err := x.c.SendProgress(ctx, wamp.List{id}, nil); err == nil {
					ok = 1
				}
				x.cb("sendprog", id, ok)
				continue
			}
			return client.InvokeResult{Args: wamp.List{id}}
		case <-ctx.Done():
			x.cb("invctx", id, 0)
			return client.InvocationCanceled
		case <-x.quit:
			return client.InvocationCanceled
		}
	}
}

func (x *cliExec) api(in CliInput) {
	x.mu.Lock()
	x.pending++
	x.mu.Unlock()
	go func() {
		switch in.Kind {
		case "sub":
			x.ret(in.G, classifySimple(x.c.Subscribe(in.Name, x.eventHandler, nil)), 0)
		case "unsub":
			x.ret(in.G, classifySimple(x.c.Unsubscribe(in.Name)), 0)
		case "reg":
			x.ret(in.G, classifySimple(x.c.Register(in.Name, x.invHandler, nil)), 0)
		case "unreg":
			x.ret(in.G, classifySimple(x.c.Unregister(in.Name)), 0)
		case "pub":
			x.ret(in.G, classifySimple(x.c.Publish(in.Name, wamp.Dict{"acknowledge": true}, wamp.List{1}, nil)), 0)
		case "callp":
			// CallProgressive: in.A chunks; the feed ends with progress = false, with the option
			// left out, or with an error of the callback instead of the last chunk
			ctx, cancel := context.WithCancel(context.Background())
			x.mu.Lock()
			x.cancels[in.G] = cancel
			x.mu.Unlock()
			var progcb client.ProgressHandler
			if in.Prog {
				g := gNum(in.G)
				progcb = func(r *wamp.Result) { x.cb("prog", g, intArg(r.Arguments)) }
			}
			k := 0
			feed := func(context.Context) (wamp.Dict, wamp.List, wamp.Dict, error) {
				k++
				switch {
				case k < in.A:
					return wamp.Dict{"progress": true}, wamp.List{k}, nil, nil
				case in.How == "err":
					return nil, nil, nil, errFeed
				case in.How == "unset":
					return nil, wamp.List{k}, nil, nil
				}
				return wamp.Dict{"progress": false}, wamp.List{k}, nil, nil
			}
			res, err := x.c.CallProgressive(ctx, in.Name, feed, progcb)
			out := classify(err)
			if errors.Is(err, errFeed) {
				out = "cberr"
			}
			req := 0
			if res != nil {
				req = int(res.Request)
			}
			var rpc client.RPCError
			if errors.As(err, &rpc) && rpc.Err != nil {
				req = int(rpc.Err.Request)
			}
			x.ret(in.G, out, req)
			cancel()
		case "call":
			ctx, cancel := context.WithCancel(context.Background())
			x.mu.Lock()
			x.cancels[in.G] = cancel
			x.mu.Unlock()
			var progcb client.ProgressHandler
			if in.Prog {
				g := gNum(in.G)
				slow := time.Duration(in.Tmo) * time.Millisecond
				progcb = func(r *wamp.Result) {
					x.cb("prog", g, intArg(r.Arguments))
					if slow > 0 {
						time.Sleep(slow) // a progress handler that takes its time
					}
				}
			}
			res, err := x.c.Call(ctx, in.Name, nil, wamp.List{1}, nil, progcb)
			out := classify(err)
			req := 0
			if res != nil {
				req = int(res.Request)
			}
			var rpc client.RPCError
			if errors.As(err, &rpc) && rpc.Err != nil {
				req = int(rpc.Err.Request)
			}
			x.ret(in.G, out, req)
			cancel()
		}
	}()
}

// classifySimple: the non-call operations return plain errors; the request id is
// not exposed, so the outcome class is what is compared.
func classifySimple(err error) string { return classify(err) }

func gNum(g string) int {
	n, _ := strconv.Atoi(g[1:])
	return n
}

func (x *cliExec) replyMsg(in CliInput) wamp.Message {
	id := wamp.ID(in.ID)
	switch in.Mk {
	case "SUBSCRIBED":
		return &wamp.Subscribed{Request: id, Subscription: wamp.ID(in.A)}
	case "UNSUBSCRIBED":
		return &wamp.Unsubscribed{Request: id}
	case "REGISTERED":
		return &wamp.Registered{Request: id, Registration: wamp.ID(in.A)}
	case "UNREGISTERED":
		return &wamp.Unregistered{Request: id}
	case "PUBLISHED":
		return &wamp.Published{Request: id, Publication: wamp.ID(in.A)}
	case "RESULT":
		return &wamp.Result{Request: id, Details: wamp.Dict{}, Arguments: wamp.List{in.A}}
	case "RESULTP":
		return &wamp.Result{Request: id, Details: wamp.Dict{"progress": true}, Arguments: wamp.List{in.A}}
	}
	return &wamp.Error{Type: wamp.CALL, Request: id, Details: wamp.Dict{}, Error: "app.error.reply"}
}

func (x *cliExec) clientGoroutines() int {
	buf := make([]byte, 1<<20)
	buf = buf[:runtime.Stack(buf, true)]
	n := 0
	for _, g := range bytes.Split(buf, []byte("\n\n")) {
		if bytes.Contains(g, []byte("nexus/v3/client.")) {
			n++
		}
	}
	return n
}

func (x *cliExec) emit(ev CliEvent) {
	if ev.Ret == nil {
		ev.Ret = []CliRet{}
	}
	if ev.Emit == nil {
		ev.Emit = []CliEmit{}
	}
	if ev.Cb == nil {
		ev.Cb = []CliCb{}
	}
	if err := x.enc.Encode(ev); err != nil {
		panic(err)
	}
}

func (x *cliExec) step(in CliInput) {
	switch in.Op {
	case "api":
		x.mu.Lock()
		busy := x.busy[in.G]
		x.busy[in.G] = true
		x.mu.Unlock()
		if busy {
			// the generator believed this goroutine had returned (it guessed the other
			// outcome of a coincidence): the step does not apply to this execution
			in = CliInput{Op: "skip"}
		} else {
			x.api(in)
		}
	case "skip":
	case "reply":
		x.toClient(x.replyMsg(in))
	case "sched":
		m := x.replyMsg(in)
		go func() {
			select {
			case <-time.After(time.Duration(in.Ms) * time.Millisecond):
				x.toClient(m)
			case <-x.quit:
			}
		}()
	case "advance":
		time.Sleep(time.Duration(in.Ms) * time.Millisecond)
	case "cancel":
		x.mu.Lock()
		cancel := x.cancels[in.G]
		x.mu.Unlock()
		if cancel != nil {
			cancel()
		}
	case "inv":
		d := wamp.Dict{}
		if in.Tmo > 0 {
			d["timeout"] = in.Tmo
		}
		if in.Prog {
			d["receive_progress"] = true
		}
		x.toClient(&wamp.Invocation{Request: wamp.ID(in.Inv), Registration: wamp.ID(in.Reg), Details: d, Arguments: wamp.List{in.Inv}})
	case "intr":
		x.toClient(&wamp.Interrupt{Request: wamp.ID(in.Inv), Options: wamp.Dict{"mode": "killnowait"}})
	case "release", "sendprog":
		how := in.How
		if in.Op == "sendprog" {
			how = "prog"
		}
		x.mu.Lock()
		ch := x.release[in.Inv]
		x.mu.Unlock()
		if ch != nil {
			select {
			case ch <- how:
			default:
			}
		}
	case "event":
		x.toClient(&wamp.Event{Subscription: wamp.ID(in.Sub), Publication: wamp.ID(1000 + in.A), Details: wamp.Dict{}, Arguments: wamp.List{in.A}})
	case "goodbye":
		x.toClient(&wamp.Goodbye{Reason: wamp.CloseSystemShutdown, Details: wamp.Dict{}})
	case "abort":
		x.toClient(&wamp.Abort{Reason: wamp.ErrProtocolViolation, Details: wamp.Dict{}})
	case "deaf":
		select {
		case <-x.deafCh:
		default:
			close(x.deafCh)
		}
	case "drop":
		x.rtr.Close()
	case "close":
		x.replyBye = in.How == "reply"
		go func() {
			_ = x.c.Close()
			x.mu.Lock()
			x.closeret = true
			x.mu.Unlock()
		}()
	case "hostile":
		if in.Hm.T == "DUPINV" {
			for i := 0; i < 3; i++ {
				x.toClient(&wamp.Invocation{Request: wamp.ID(in.Inv), Registration: wamp.ID(in.Reg), Details: wamp.Dict{}, Arguments: wamp.List{in.Inv}})
			}
		} else {
			x.toClient(x.hostileToClient(in))
		}
	}
	synctest.Wait()
	x.mu.Lock()
	ev := CliEvent{Ev: "step", Scn: x.scn, In: in, Ret: x.rets, Emit: x.emits, Cb: x.cbs, Closeret: x.closeret, Now: x.nowMs(), Blocked: x.blocked}
	x.rets, x.emits, x.cbs = nil, nil, nil
	x.mu.Unlock()
	select {
	case <-x.c.Done():
		ev.Done = true
	default:
	}
	x.emit(ev)
}

func (x *cliExec) run(sc *CliScenario) {
	x.scn = sc.ID
	x.start = time.Now()
	x.cancels = map[string]context.CancelFunc{}
	x.release = map[int]chan string{}
	x.hostile = map[wamp.ID]bool{}
	x.busy = map[string]bool{}
	x.rets, x.emits, x.cbs = nil, nil, nil
	x.closeret, x.pending, x.blocked, x.replyBye = false, 0, false, false
	x.quit = make(chan struct{})
	x.deafCh = make(chan struct{})
	cli, rtr := transport.LinkedPeers()
	x.rtr = rtr
	made := make(chan *client.Client, 1)
	go func() {
		c, err := client.NewClient(cli, client.Config{Realm: "verif.realm", ResponseTimeout: time.Duration(sc.Rt) * time.Millisecond,
			Logger: log.New(io.Discard, "", 0)})
		if err != nil {
			panic("harness: NewClient: " + err.Error())
		}
		made <- c
	}()
	if _, ok := (<-rtr.Recv()).(*wamp.Hello); !ok {
		panic("harness: client did not say HELLO")
	}
	feats := wamp.Dict{"features": wamp.Dict{"payload_passthru_mode": true, "call_canceling": true, "progressive_call_results": true,
		"call_timeout": true, "publisher_identification": true, "progressive_call_invocations": true}}
	rtr.Send() <- &wamp.Welcome{ID: 7, Details: wamp.Dict{"roles": wamp.Dict{"broker": feats, "dealer": feats}}}
	x.c = <-made
	go x.routerSide()
	synctest.Wait()
	x.emit(CliEvent{Ev: "reset", Scn: sc.ID, Rt: sc.Rt})
	for _, in := range sc.Steps {
		x.step(in)
	}
	// epilogue: Close must return and leave nothing behind
	x.mu.Lock()
	closing := x.closeret
	x.mu.Unlock()
	if !closing {
		started := false
		for _, in := range sc.Steps {
			if in.Op == "close" {
				started = true
			}
		}
		if !started {
			x.step(CliInput{Op: "close"})
		}
	}
	x.step(CliInput{Op: "advance", Ms: 2*sc.Rt + 1})
	x.step(CliInput{Op: "advance", Ms: 2*sc.Rt + 1})
	synctest.Wait()
	x.mu.Lock()
	end := CliEvent{Ev: "end", Scn: sc.ID, Closeret: x.closeret, Pending: x.pending, Now: x.nowMs()}
	x.mu.Unlock()
	end.Gor = x.clientGoroutines()
	x.emit(end)
	close(x.quit)
	func() {
		defer func() { _ = recover() }()
		rtr.Close()
	}()
	for _, c := range x.cancels {
		c()
	}
	if !end.Closeret {
		// the client is stuck: abandon it so that the worker can go on (the bubble
		// would otherwise report its goroutines)
		panic("harness: client Close never returned in scenario " + sc.ID)
	}
	synctest.Wait()
}

// TestCliExec runs the client scenarios of $VERIF_SCN (same protocol as TestExec).
func TestCliExec(t *testing.T) {
	scnFile := os.Getenv("VERIF_SCN")
	outFile := os.Getenv("VERIF_OUT")
	if scnFile == "" || outFile == "" {
		t.Skip("VERIF_SCN/VERIF_OUT not set")
	}
	skip, _ := strconv.Atoi(os.Getenv("VERIF_SKIP"))
	in, err := os.Open(scnFile)
	if err != nil {
		t.Fatal(err)
	}
	defer in.Close()
	out, err := os.OpenFile(outFile, os.O_CREATE|os.O_WRONLY|os.O_APPEND, 0o644)
	if err != nil {
		t.Fatal(err)
	}
	defer out.Close()
	w := bufio.NewWriter(out)
	defer w.Flush()
	x := &cliExec{enc: json.NewEncoder(w)}
	sc := bufio.NewScanner(in)
	sc.Buffer(make([]byte, 1<<20), 1<<26)
	idx := 0
	for sc.Scan() {
		line := sc.Bytes()
		if len(line) == 0 {
			continue
		}
		idx++
		if idx <= skip {
			continue
		}
		var s CliScenario
		if err := json.Unmarshal(line, &s); err != nil {
			t.Fatalf("scenario %d: %v", idx, err)
		}
		w.Flush()
		_ = os.WriteFile(outFile+".progress", []byte(strconv.Itoa(idx)+" "+s.ID+"\n"), 0o644)
		stop := watchdog(s.ID)
		synctest.Test(t, func(t *testing.T) {
			x.run(&s)
		})
		close(stop)
		w.Flush()
	}
	_ = os.WriteFile(outFile+".progress", []byte("done\n"), 0o644)
}
