// Package harness executes TLC-generated scenarios against the real nexus
// router/client (built from /repo's working tree) and records what every peer
// observed, in the abstraction the trace specifications read.
package harness

// AttrList is one exclude_<attr>/eligible_<attr> publish option.
type AttrList struct {
	A string   `json:"a"`
	V []string `json:"v"`
}

// Opts carries every option any input may have (one uniform record so that
// the TLA+ side never meets a missing field).
type Opts struct {
	Ack    bool       `json:"ack"`
	Xme    string     `json:"xme"` // "" absent, "t", "f"
	Xl     []int      `json:"xl"`  // exclude: canonical session ids
	El     []int      `json:"el"`  // eligible
	Hx     bool       `json:"hx"`  // exclude key present
	He     bool       `json:"he"`  // eligible key present
	Xa     []AttrList `json:"xa"`
	Ea     []AttrList `json:"ea"`
	Dme    bool       `json:"dme"`
	Match  string     `json:"match"`
	Invoke string     `json:"invoke"`
	Dcl    bool       `json:"dcl"`
	Fwd    bool       `json:"fwd"`
	Tmo    int        `json:"tmo"`
	Rprog  bool       `json:"rprog"`
	Mode   string     `json:"mode"`
	Prog   bool       `json:"prog"`
	Err    string     `json:"err"`
	Ppt    string     `json:"ppt"` // payload passthru scheme named in the options ("" = none)
}

// Join describes how a session attaches.
type Join struct {
	Authid string   `json:"authid"`
	Color  string   `json:"color"`
	Feats  []string `json:"feats"` // "role:feature"
	Local  bool     `json:"local"`
	Q      int      `json:"q"` // router-to-client queue size, 0 = default
	// Tr: transport of a network session: "" = in-process linked peers (reporting
	// IsLocal() = false), "rs-json|rs-msgpack|rs-cbor" = rawsocket over an
	// in-memory pipe, "ws-json|ws-msgpack|ws-cbor" = websocket over an
	// in-memory connection (C15)
	Tr string `json:"tr"`
}

// Hello describes the first message of a handshake (C09).
type Hello struct {
	First   string   `json:"first"`   // "HELLO", another message type, "none"
	Realm   string   `json:"realm"`   // "ok" | "missing" | "empty"
	Roles   string   `json:"roles"`   // "ok" | "none" | "unknown" | "badtype"
	Methods []string `json:"methods"` // authmethods; "#" = an entry that is not a string
	Authid  string   `json:"authid"`
	Smuggle bool     `json:"smuggle"` // identity fields smuggled through the HELLO details
	Color   string   `json:"color"`
	Feats   []string `json:"feats"`
	Local   bool     `json:"local"`
	Q       int      `json:"q"`
}

// AuthResp describes the answer to a CHALLENGE in abstract crypto: a signature
// (or ticket) made with the key of user Key over the challenge issued to peer
// Ch ("" = the peer's own challenge).
type AuthResp struct {
	Kind string `json:"kind"` // "sig" | "garbage" | "other"
	Key  string `json:"key"`
	Ch   string `json:"ch"`
}

// AuthCfg is the authentication configuration of a realm.
type AuthCfg struct {
	Anon    bool     `json:"anon"`
	Methods []string `json:"methods"`
	Lauth   bool     `json:"lauth"`
	Crtmo   int      `json:"crtmo"` // ms; 0 = configuration not given (legacy default)
}

// Input is one scenario step.
type Input struct {
	Op   string   `json:"op"`
	R    int      `json:"r"` // realm index (multi-realm scenarios)
	S    string   `json:"s"`
	Req  int      `json:"req"`
	URI  []string `json:"uri"`
	Tag  string   `json:"tag"`
	ID   int      `json:"id"`
	Ms   int      `json:"ms"`
	How  string   `json:"how"`
	Args []string `json:"args"`
	Uri2 []string `json:"uri2"` // URI argument of a meta call / kill reason / testament topic
	F    Filter   `json:"f"`    // get_events filters
	O    Opts     `json:"o"`
	Join Join     `json:"join"`
	Hm   Mutant   `json:"hm"` // hostile step (C04)
	Hello Hello   `json:"hello"` // handshake steps (C09)
	Resp  AuthResp `json:"resp"`
	// With: an input submitted concurrently with a closerouter / rmrealm step (C06)
	With *Input `json:"with,omitempty"`
	// Gate: hold the concurrently joining session's attach goroutine at the
	// verif gate before its WELCOME until the shutdown has run as far as it can
	Gate bool `json:"gate"`
	// Prog: the programs of a burst step (C07/C08): every listed session sends
	// its inputs in order, all sessions concurrently, nothing is awaited between
	Prog []Program `json:"prog"`
}

// Program is the input sequence of one session in a burst.
type Program struct {
	S   string  `json:"s"`
	Ops []Input `json:"ops"`
}

// Mutant describes one hostile message (spec/Hostile.tla).
type Mutant struct {
	T     string `json:"t"`     // message template / type
	Pos   string `json:"pos"`   // mutated field or option key
	Kind  string `json:"kind"`  // value kind put there
	Phase string `json:"phase"` // joined | prehello | aftergoodbye | midcall
	Drop  bool   `json:"drop"`  // abrupt disconnect right after
}

// Filter carries the wamp.subscription.get_events filters (0 / empty = absent;
// times in milliseconds of the virtual clock, publications as canonical ids).
type Filter struct {
	Limit   int      `json:"limit"`
	Reverse bool     `json:"reverse"`
	FromT   int      `json:"from_t"`
	AfterT  int      `json:"after_t"`
	BeforeT int      `json:"before_t"`
	UntilT  int      `json:"until_t"`
	FromP   int      `json:"from_p"`
	AfterP  int      `json:"after_p"`
	BeforeP int      `json:"before_p"`
	UntilP  int      `json:"until_p"`
	Topic   []string `json:"topic"`
}

// HistEntry is one entry of a get_events answer.
type HistEntry struct {
	B int      `json:"b"`
	V []string `json:"v"`
	P string   `json:"p"`
}

// HistCfg is one event-history configuration entry.
type HistCfg struct {
	U []string `json:"u"`
	M string   `json:"m"`
	N int      `json:"n"`
}

// User is one entry of the ticket key store.
type User struct {
	ID   string `json:"id"`
	Role string `json:"role"`
}

// Cfg is the realm configuration of a scenario.
type Cfg struct {
	Strict   bool      `json:"strict"`
	Disclose bool      `json:"disclose"`
	Metakill bool      `json:"metakill"`
	Hcfg     []HistCfg `json:"hcfg"`
	Users    []User    `json:"users"`
	Authz    []Rule    `json:"authz"`
	Lauthz   bool      `json:"lauthz"`
	// multi-realm scenarios only: Late = added by an "addrealm" step,
	// Template = created from the router's realm template by the first HELLO
	Late     bool `json:"late"`
	Template bool `json:"template"`
	Closed   bool `json:"closed"` // always false in configurations; set by the specification when the realm is closed
	Auth     AuthCfg `json:"auth"`
}

// Rule is one authorizer rule: message type, sender class ("any", "local",
// "remote" or an authrole) and decision ("allow", "deny", "fail", "rewrite").
type Rule struct {
	Mt  string `json:"mt"`
	Who string `json:"who"`
	Dec string `json:"dec"`
}

// Scenario is one TLC-generated behaviour reduced to its inputs.
type Scenario struct {
	ID    string  `json:"id"`
	Cfg   Cfg     `json:"cfg"`
	Steps []Input `json:"steps"`
	// Realms, if not empty, replaces Cfg: several realms in one router; every
	// step names its realm by index (Input.R).
	Realms []Cfg `json:"realms"`
	// Epilogue: after the steps every live session leaves, the clock is
	// advanced by two hours and a snapshot is taken (C05).
	Epilogue bool `json:"epilogue"`
	// Poison: in-process recipients overwrite details and payload of every
	// EVENT/INVOCATION they received (C12: private copies).
	Poison bool `json:"poison"`
}

// Msg is a received message under the abstraction alpha (DESIGN 2.5).
type Msg struct {
	K   string      `json:"k"`
	Req int         `json:"req"`
	A   int         `json:"a"`
	B   int         `json:"b"`
	X   int         `json:"x"`
	Y   int         `json:"y"`
	U   []string    `json:"u"`
	V   []string    `json:"v"`
	W   []string    `json:"w"`
	E   string      `json:"e"`
	D   [][2]string `json:"d"`
	Pd  [][2]string `json:"pd"`
	Ids []int       `json:"ids"`
	P   string      `json:"p"`
	Hl  []HistEntry `json:"hl"`
	T   int         `json:"t"`
}

// SessOut is what one session received during one step.
type SessOut struct {
	S string `json:"s"`
	M []Msg  `json:"m"`
}

// Bind carries the values the implementation chose freely in this step.
type Bind struct {
	Sid    int    `json:"sid"`
	Sub    int    `json:"sub"`
	Pub    int    `json:"pub"`
	Reg    int    `json:"reg"`
	Inv    int    `json:"inv"`
	Callee string `json:"callee"`
	Hp     []int  `json:"hp"` // publication ids of a get_events answer
	// Closed lists the tainted sessions whose transport the router closed
	// during a hostile step (their messages are not logged).
	Closed []string `json:"closed"`
}

// Event is one line of the recorded trace.
type Event struct {
	Ev     string    `json:"ev"` // "reset" | "step"
	Scn    string    `json:"scn"`
	Cfg    Cfg       `json:"cfg"`
	In     Input     `json:"in"`
	Bind   Bind      `json:"bind"`
	Out    []SessOut `json:"out"`
	Now    int       `json:"now"`
	BadIDs int       `json:"badids"`
	Snap   []SnapKV  `json:"snap"`
	Gor    int       `json:"gor"`
	// Ret: the Close / RemoveRealm call of this step had returned at quiescence
	Ret bool `json:"ret"`
	// Withc: a concurrent input was submitted during this shutdown step
	Withc bool `json:"withc"`
	// AttachErr: Attach returned an error for the joining peer of this step
	AttachErr bool `json:"attacherr"`
}

// SnapKV is one table size of the verif snapshot.
type SnapKV struct {
	K string `json:"k"`
	N int    `json:"n"`
}
