-------------------------------- MODULE Core --------------------------------
(***************************************************************************)
(* One realm of the nexus router as an atomic input/output machine: one    *)
(* action per client input (or timer expiry), executed to quiescence.      *)
(* State = the tables owned by the realm, broker and dealer goroutines;    *)
(* `out' = what every session received because of the last input.          *)
(*                                                                         *)
(* Every action is written as a pure function from a state record S to a   *)
(* state record (suffix Fx) so that effects compose (a kill is a meta call *)
(* plus a leave, a leave publishes testaments and meta events, ...).       *)
(* Values the implementation chooses freely (ids, random callee) are       *)
(* parameters: generators pick them with counters, trace specifications    *)
(* bind them to the logged values and the action checks they are allowed.  *)
(***************************************************************************)
EXTENDS Integers, Sequences, FiniteSets, TLC, SequencesExt, URI, WampURIs

CONSTANT Deviations      \* names of known divergences of the code that are switched on

VARIABLES cfg,    \* realm configuration record (see InitCfg)
          sess,   \* session name -> [st, id, attrs, feats, local]
          subs,   \* <<topic, match>> -> [id, members]
          regs,   \* <<procedure, match>> -> [id, policy, callees, last, disclose, fwd]
          calls,  \* <<caller, request>> -> [callee, inv, reg, canceled, deadline]
          used,   \* ids already handed out: [sub, reg, pub, sid : sets, inv : session -> set]
          hist,   \* <<topic, match>> -> sequence of retained publications
          tst,    \* session -> sequence of testaments
          now,    \* clock, milliseconds
          retry,  \* RESULTs a callee's handler is retrying to send to a blocked caller
          out     \* session -> sequence of messages received in the last step

vars == <<cfg, sess, subs, regs, calls, used, hist, tst, now, retry, out>>

Rng(f) == {f[i] : i \in DOMAIN f}

\* --------------------------------------------------------------------------
\* messages as the observers see them (one uniform record shape)
Base == [k |-> "", req |-> 0, a |-> 0, b |-> 0, x |-> 0, y |-> 0,
         u |-> <<>>, v |-> <<>>, w |-> <<>>, e |-> "", d |-> {}, pd |-> {}, ids |-> {},
         p |-> "", hl |-> <<>>, t |-> 0]

T_SUBSCRIBE == 32  T_UNSUBSCRIBE == 34  T_PUBLISH == 16  T_REGISTER == 64
T_UNREGISTER == 66 T_CALL == 48  T_CANCEL == 49  T_INVOCATION == 68  T_YIELD == 70

ErrInvalidURI      == "wamp.error.invalid_uri"
ErrNoSuchSub       == "wamp.error.no_such_subscription"
ErrNoSuchReg       == "wamp.error.no_such_registration"
ErrNoSuchProc      == "wamp.error.no_such_procedure"
ErrProcExists      == "wamp.error.procedure_already_exists"
ErrDiscloseMe      == "wamp.error.option_disallowed.disclose_me"
ErrCanceled        == "wamp.error.canceled"
ErrTimeout         == "wamp.error.timeout"
ErrInvalidArgument == "wamp.error.invalid_argument"
ErrNoSuchSession   == "wamp.error.no_such_session"
ErrNotAuthorized   == "wamp.error.not_authorized"
ErrAuthzFailed     == "wamp.error.authorization_failed"
ErrNetworkFailure  == "wamp.error.network_failure"
ErrFeatureNotSupp  == "wamp.error.feature_not_supported"
GoodbyeAndOut      == "wamp.close.goodbye_and_out"
CloseNormal        == "wamp.close.normal"
ProtocolViolation  == "wamp.error.protocol_violation"

ErrorMsg(type, req, uri, S) ==
  [Base EXCEPT !.k = "ERROR", !.a = type, !.req = req, !.e = uri, !.t = S.now]

\* --------------------------------------------------------------------------
\* the state record
Cur == [cfg |-> cfg, sess |-> sess, subs |-> subs, regs |-> regs, calls |-> calls,
        used |-> used, hist |-> hist, tst |-> tst, now |-> now, retry |-> retry, em |-> <<>>]

\* A session that does not read (stalled) has at most its queue capacity of
\* messages buffered for it; the rest is dropped (C07).  Settle moves the
\* emissions for stalled sessions into their buffers.
RECURSIVE SettleFrom(_, _, _)
SettleFrom(S, i, keep) ==
  IF i > Len(S.em) THEN [S EXCEPT !.em = keep]
  ELSE LET e == S.em[i] IN
       IF e.to \in DOMAIN S.sess /\ S.sess[e.to].stalled
       THEN SettleFrom([S EXCEPT !.sess[e.to].pend = IF Len(@) < S.sess[e.to].cap THEN Append(@, e.m) ELSE @], i + 1, keep)
       ELSE SettleFrom(S, i + 1, Append(keep, e))
Settle(S) == SettleFrom(S, 1, <<>>)
\* Several sessions publishing at once: which of their events a session that does not read still has
\* room for depends on the order in which the broker takes the publications.  Everything is kept as
\* a candidate; when the session reads again, what it got must be a part of it as large as its queue.
RECURSIVE SettleAllFrom(_, _, _)
SettleAllFrom(S, i, keep) ==
  IF i > Len(S.em) THEN [S EXCEPT !.em = keep]
  ELSE LET e == S.em[i] IN
       IF e.to \in DOMAIN S.sess /\ S.sess[e.to].stalled
       THEN SettleAllFrom([S EXCEPT !.sess[e.to].pend = Append(@, e.m)], i + 1, keep)
       ELSE SettleAllFrom(S, i + 1, Append(keep, e))

Deliver(S) == [s \in DOMAIN S.sess |->
                 LET mine == SelectSeq(S.em, LAMBDA e : e.to = s)
                 IN [i \in 1..Len(mine) |-> mine[i].m]]

CommitAll(S0) == LET S == SettleAllFrom(S0, 1, <<>>) IN
             /\ cfg' = S.cfg /\ sess' = S.sess /\ subs' = S.subs /\ regs' = S.regs
             /\ calls' = S.calls /\ used' = S.used /\ hist' = S.hist /\ tst' = S.tst
             /\ now' = S.now /\ retry' = S.retry /\ out' = Deliver(S)
Commit(S0) == LET S == Settle(S0) IN
             /\ cfg' = S.cfg /\ sess' = S.sess /\ subs' = S.subs /\ regs' = S.regs
             /\ calls' = S.calls /\ used' = S.used /\ hist' = S.hist /\ tst' = S.tst
             /\ now' = S.now /\ retry' = S.retry /\ out' = Deliver(S)

Emit(S, to, m)   == [S EXCEPT !.em = Append(@, [to |-> to, m |-> m])]
EmitSeq(S, q)    == [S EXCEPT !.em = @ \o q]

Joined(S)        == {s \in DOMAIN S.sess : S.sess[s].st = "joined"}
Has(S, s, f)     == f \in S.sess[s].feats
\* (wamp.session.modify_details may delete a detail: the key stays, marked)
Deleted          == "<deleted>"
Present(S, s, a) == a \in DOMAIN S.sess[s].attrs /\ S.sess[s].attrs[a] # Deleted
Attr(S, s, a)    == IF Present(S, s, a) THEN S.sess[s].attrs[a] ELSE ""
SidOf(S, s)      == S.sess[s].id

\* --------------------------------------------------------------------------
\* publication filter (black/white lists by session id and by any attribute)
Allowed(S, s, o) ==
  /\ SidOf(S, s) \notin Rng(o.xl)
  /\ (o.el # <<>> => SidOf(S, s) \in Rng(o.el))
  /\ \A i \in DOMAIN o.xa : LET a == Attr(S, s, o.xa[i].a) IN a = "" \/ a \notin Rng(o.xa[i].v)
  /\ \A i \in DOMAIN o.ea : LET a == Attr(S, s, o.ea[i].a) IN a # "" /\ a \in Rng(o.ea[i].v)

NoOpts == [ack |-> FALSE, xme |-> "", xl |-> <<>>, el |-> <<>>, hx |-> FALSE, he |-> FALSE,
           xa |-> <<>>, ea |-> <<>>, dme |-> FALSE, ppt |-> ""]

\* payload passthru mode: the scheme a PUBLISH, CALL or YIELD names in its options travels in the
\* details of what is delivered - if the sender announced the feature for its role (else it has
\* violated the protocol) and, for calls, the peer at the other end announced it too
PptD(o) == IF o.ppt # "" THEN {<<"ppt_scheme", o.ppt>>} ELSE {}

UnserTag(p) == p \in {"u" \o ToString(n) : n \in 1..64}

PubIdent(S, p) == {<<"publisher", ToString(SidOf(S, p))>>}
                  \cup {<<"publisher_" \o a, Attr(S, p, a)>> : a \in {aa \in {"authid", "authrole"} : Present(S, p, aa)}}

\* Events of one publication.  `pubsess' is the publishing session name or
\* "" for the realm's meta session; `fields' carries the payload fields.
\* Retention: every configured history subscription matching the topic keeps
\* the publication unless it carried an exclude/eligible session list.
PublishFx(S, pubsess, topic, o, pubid, fields, disclose) ==
  LET exclMe == (o.xme # "f")
      keys   == {k \in DOMAIN S.subs : MatchKey(k, topic)}
      recv   == {r \in Joined(S) \X keys :
                   /\ r[1] \in S.subs[r[2]].members
                   /\ ~(r[1] = pubsess /\ exclMe)
                   /\ Allowed(S, r[1], o)
                   \* a payload no serializer can encode (tags u1, u2, ...: only an in-process publisher can
                   \* hand one over) is dropped, as a whole, for receivers on a serialising transport (C15)
                   /\ ~(UnserTag(fields.p) /\ Attr(S, r[1], "tr") # "")}
      ev(r)  == [to |-> r[1],
                 m  |-> [fields EXCEPT !.k = "EVENT", !.a = S.subs[r[2]].id, !.b = pubid,
                            !.u = IF r[2][2] = "exact" THEN <<>> ELSE topic,
                            !.v = topic,
                            !.d = (IF disclose /\ pubsess # "" /\ Has(S, r[1], "subscriber:publisher_identification")
                                   THEN PubIdent(S, pubsess) ELSE {})
                                  \cup (IF pubsess # "" THEN PptD(o) ELSE {}),
                            !.t = S.now]]
      evs    == SetToSeq({ev(r) : r \in recv})
      keep   == {k \in keys : k \in DOMAIN S.hist /\ ~o.hx /\ ~o.he}
      entry  == [pub |-> pubid, topic |-> topic, p |-> fields.p, t |-> S.now]
      lim(k) == CHOOSE i \in DOMAIN S.cfg.hcfg : <<S.cfg.hcfg[i].u, NormMatch(S.cfg.hcfg[i].m)>> = k
      app(k) == LET q == Append(S.hist[k], entry)
                    n == S.cfg.hcfg[lim(k)].n
                IN IF Len(q) > n THEN SubSeq(q, Len(q) - n + 1, Len(q)) ELSE q
  IN [S EXCEPT !.em = @ \o evs,
               !.hist = [k \in DOMAIN S.hist |-> IF k \in keep THEN app(k) ELSE S.hist[k]]]

\* a publication by the realm's meta session (registration and session meta events, testaments)
MetaPubFx(S, topic, fields) == PublishFx(S, "", topic, NoOpts, 0, fields, FALSE)

\* subscription meta events are written by the broker directly: never to the
\* session that caused them, never retained
SubMetaFx(S, topic, cause, fields) ==
  LET keys == {k \in DOMAIN S.subs : MatchKey(k, topic)}
      recv == {r \in Joined(S) \X keys : r[1] \in S.subs[r[2]].members /\ r[1] # cause}
      ev(r) == [to |-> r[1],
                m  |-> [fields EXCEPT !.k = "EVENT", !.a = S.subs[r[2]].id,
                           !.u = IF r[2][2] = "exact" THEN <<>> ELSE topic, !.v = topic, !.t = S.now]]
  IN EmitSeq(S, SetToSeq({ev(r) : r \in recv}))

\* --------------------------------------------------------------------------
\* sessions
IdentPairs(S, s) == {<<a, Attr(S, s, a)>> : a \in {aa \in {"authid", "authrole", "authmethod", "authprovider"} : Present(S, s, aa)}}

RoleOfUser(c, authid) == IF \E i \in DOMAIN c.users : c.users[i].id = authid
                         THEN (CHOOSE r \in {c.users[i] : i \in DOMAIN c.users} : r.id = authid).role
                         ELSE "anonymous"

\* attrs = the identity the router and the authenticator assigned; sid = the session id
\* the router assigned.  (A session that went through a handshake has a pending
\* entry in `sess' already; it is replaced.)
JoinRecFx(S, s, attrs, feats, local, q, sid) ==
  LET rec   == [st |-> "joined", id |-> sid, attrs |-> attrs, feats |-> feats, local |-> local,
                stalled |-> FALSE, pend |-> <<>>, cap |-> IF q = 0 THEN 64 ELSE q]
      S1    == [S EXCEPT !.sess = (s :> rec) @@ @,
                         !.used.sid = @ \cup {sid},
                         !.used.inv = (s :> {}) @@ @,
                         !.tst = (s :> <<>>) @@ @]
      S2    == MetaPubFx(S1, U_session_on_join,
                         [Base EXCEPT !.x = sid, !.pd = IdentPairs(S1, s)])
  IN Emit(S2, s, [Base EXCEPT !.k = "WELCOME", !.a = sid, !.d = IdentPairs(S1, s), !.t = S.now])

\* the one-step attach of the routing scenarios: in-process peers are trusted,
\* network peers authenticate with their ticket.
\* j = [authid, color, feats, local, q]
JoinFx(S, s, j, sid) ==
  LET attrs == IF j.local
               THEN [authid |-> j.authid, authrole |-> "trusted", authmethod |-> "local",
                     authprovider |-> "static", color |-> j.color, tr |-> ""]
               \* tr: the network transport, "" = none; nothing in the routing depends on it (C15)
               ELSE [authid |-> j.authid, authrole |-> RoleOfUser(S.cfg, j.authid), authmethod |-> "ticket",
                     authprovider |-> "static", color |-> j.color, tr |-> j.tr]
  IN JoinRecFx(S, s, attrs, Rng(j.feats), j.local, j.q, sid)

\* --------------------------------------------------------------------------
\* the handshake (C09), one action per message of the joining peer.
\* cfg.auth = [anon, methods, lauth, crtmo]: anonymous allowed, the challenge methods
\* an authenticator is configured for, RequireLocalAuth, the authenticators' timeout.
\* h = [first, realm, roles, methods, authid, smuggle, color, feats, local, q]:
\*   first   "HELLO", another message type, or "none" (the peer sends nothing)
\*   realm   "ok" | "missing" | "empty";  roles "ok" | "none" | "unknown" | "badtype"
\*   methods the authmethods list; "" = empty string entry, "#" = an entry that is not a string
\*   smuggle the HELLO details also carry authrole, authprovider, authmethod and session
\* Crypto is abstract: a response is [kind, key, ch] - kind "sig" = a signature (or the
\* ticket) made with the key of user `key' over the challenge issued to peer `ch'
\* ("" = the challenge of this very handshake).
HelloTimeout == 5000
KnownUser(S, authid) == \E i \in DOMAIN S.cfg.users : S.cfg.users[i].id = authid
Usable(S, m)  == (m = "anonymous" /\ S.cfg.auth.anon) \/ m \in Rng(S.cfg.auth.methods)
Offered(h)    == IF h.methods = <<>> THEN <<"anonymous">> ELSE SelectSeq(h.methods, LAMBDA m : m # "" /\ m # "#")
ChosenMethod(S, h) == LET q == SelectSeq(Offered(h), LAMBDA m : Usable(S, m)) IN IF q = <<>> THEN "" ELSE q[1]

HsRec(h, st, method, dl) ==
  [st |-> st, id |-> 0,
   attrs |-> [authid |-> h.authid, authrole |-> "", authmethod |-> "", authprovider |-> "", color |-> h.color],
   feats |-> Rng(h.feats), local |-> h.local, stalled |-> FALSE, pend |-> <<>>, cap |-> IF h.q = 0 THEN 64 ELSE h.q,
   hs |-> [method |-> method, deadline |-> dl, q |-> h.q]]

\* rejected: ABORT (the reason is not part of the property), transport closed, never attached
RejectFx(S, s, rec, abort, t) ==
  LET S1 == [S EXCEPT !.sess = (s :> [rec EXCEPT !.st = "rejected"]) @@ @]
      S2 == IF abort THEN Emit(S1, s, [Base EXCEPT !.k = "ABORT", !.t = t]) ELSE S1
  IN Emit(S2, s, [Base EXCEPT !.k = "CLOSED", !.t = t])

HelloFx(S, s, h, sid) ==
  LET rej == RejectFx(S, s, HsRec(h, "rejected", "", 0), TRUE, S.now)
      ident(authid, role, method) == [authid |-> authid, authrole |-> role, authmethod |-> method,
                                      authprovider |-> "static", color |-> h.color]
  IN
  IF h.first = "none"
  THEN [S EXCEPT !.sess = (s :> HsRec(h, "pending", "nohello", S.now + HelloTimeout)) @@ @]
  ELSE IF h.first # "HELLO" \/ h.realm # "ok" \/ h.roles # "ok" THEN rej
  ELSE IF h.local /\ ~S.cfg.auth.lauth
  THEN \* in-process peers are trusted under the authid they name (documented policy)
       JoinRecFx(S, s, ident(IF h.authid = "" THEN "RANDOM" ELSE h.authid, "trusted", "local"), Rng(h.feats), h.local, h.q, sid)
  ELSE LET m == ChosenMethod(S, h) IN
       IF m = "" THEN rej
       ELSE IF m = "anonymous"
       THEN JoinRecFx(S, s, ident("RANDOM", "anonymous", "anonymous"), Rng(h.feats), h.local, h.q, sid)
       ELSE IF h.authid = "" THEN rej
       ELSE IF m = "cryptosign" /\ ~KnownUser(S, h.authid) THEN rej
       ELSE Emit([S EXCEPT !.sess = (s :> HsRec(h, "pending", m, S.now + S.cfg.auth.crtmo)) @@ @],
                 s, [Base EXCEPT !.k = "CHALLENGE", !.e = m, !.t = S.now])

Pending(S) == {s \in DOMAIN S.sess : S.sess[s].st = "pending"}

\* the response is valid for the challenge issued in this very handshake
\* (DevCryptosignReplay: the code accepts a cryptosign signature made over any challenge)
ValidResponse(S, s, a) ==
  LET p == S.sess[s] m == p.hs.method IN
  /\ a.kind = "sig" /\ KnownUser(S, p.attrs.authid) /\ a.key = p.attrs.authid
  /\ \/ m = "ticket"                     \* a ticket is a static secret: no challenge to bind to
     \/ a.ch \in {"", s}
     \/ (m = "cryptosign" /\ "DevCryptosignReplay" \in Deviations)

\* the second message of a peer that was challenged
AuthFx(S, s, a, sid) ==
  LET p == S.sess[s] IN
  IF p.hs.method # "nohello" /\ ValidResponse(S, s, a)
  THEN JoinRecFx(S, s, [p.attrs EXCEPT !.authrole = RoleOfUser(S.cfg, p.attrs.authid), !.authmethod = p.hs.method,
                                       !.authprovider = "static"],
                 p.feats, p.local, p.hs.q, sid)
  ELSE RejectFx(S, s, p, TRUE, S.now)

\* the transport of a pending peer is lost
HsDropFx(S, s) == [S EXCEPT !.sess[s].st = "rejected"]

\* a rejected peer keeps sending: nothing it sends has any effect
IntrudeFx(S, s) == S

\* handshake deadlines up to S.now: authentication timeout = ABORT, no HELLO in time = closed
RECURSIVE HsExpireFx(_)
HsExpireFx(S) ==
  LET due == {s \in Pending(S) : S.sess[s].hs.deadline <= S.now} IN
  IF due = {} THEN S
  ELSE LET s == CHOOSE x \in due : TRUE
           p == S.sess[s]
       IN HsExpireFx(RejectFx(S, s, p, p.hs.method # "nohello", p.hs.deadline))

\* --------------------------------------------------------------------------
\* broker
SubKeyById(S, id) == {k \in DOMAIN S.subs : S.subs[k].id = id}
IsHistKey(S, k)   == k \in DOMAIN S.hist

SubscribeFx(S, s, req, topic, match, newid) ==
  IF ~ValidURI(S.cfg.strict, match, topic)
  THEN Emit(S, s, ErrorMsg(T_SUBSCRIBE, req, ErrInvalidURI, S))
  ELSE
    LET k  == <<topic, NormMatch(match)>>
        ex == k \in DOMAIN S.subs
        id == IF ex THEN S.subs[k].id ELSE newid
        ok == [Base EXCEPT !.k = "SUBSCRIBED", !.req = req, !.a = id, !.t = S.now]
    IN IF ex /\ s \in S.subs[k].members THEN Emit(S, s, ok)
       ELSE
         LET S1 == [S EXCEPT !.subs = IF ex THEN [@ EXCEPT ![k].members = @ \cup {s}]
                                            ELSE (k :> [id |-> id, members |-> {s}]) @@ @,
                             !.used.sub = @ \cup {id}]
             S2 == Emit(S1, s, ok)
             S3 == IF ex THEN S2
                   ELSE SubMetaFx(S2, U_subscription_on_create, s,
                                  [Base EXCEPT !.x = SidOf(S, s), !.y = id, !.w = topic,
                                               !.pd = {<<"match", NormMatch(match)>>}])
         IN SubMetaFx(S3, U_subscription_on_subscribe, s, [Base EXCEPT !.x = SidOf(S, s), !.y = id])

\* A subscription disappears with its last subscriber, except the subscriptions
\* configured for event history, which exist from start-up to shutdown.
\* (DevHistorySubDeleted: the code deletes those too.)
DeleteWhenEmpty(S, k) == ~IsHistKey(S, k) \/ "DevHistorySubDeleted" \in Deviations

RemoveMemberFx(S, s, k, withUnsub) ==
  LET id   == S.subs[k].id
      left == S.subs[k].members \ {s}
      del  == left = {} /\ DeleteWhenEmpty(S, k)
      S1   == [S EXCEPT !.subs = IF del THEN [kk \in DOMAIN @ \ {k} |-> @[kk]]
                                        ELSE [@ EXCEPT ![k].members = left],
                        !.hist = IF del /\ k \in DOMAIN @ THEN [kk \in DOMAIN @ \ {k} |-> @[kk]] ELSE @]
      S2   == IF withUnsub
              THEN SubMetaFx(S1, U_subscription_on_unsubscribe, s, [Base EXCEPT !.x = SidOf(S, s), !.y = id])
              ELSE S1
  IN IF del THEN SubMetaFx(S2, U_subscription_on_delete, s, [Base EXCEPT !.x = SidOf(S, s), !.y = id])
     ELSE S2

UnsubscribeFx(S, s, req, subid) ==
  LET ks == SubKeyById(S, subid) IN
  IF ks = {} \/ (\A k \in ks : s \notin S.subs[k].members)
  THEN Emit(S, s, ErrorMsg(T_UNSUBSCRIBE, req, ErrNoSuchSub, S))
  ELSE LET k  == CHOOSE kk \in ks : TRUE
           \* y = the subscription the acknowledged request named (the observer's own bookkeeping)
           S1 == Emit(S, s, [Base EXCEPT !.k = "UNSUBSCRIBED", !.req = req, !.y = subid, !.t = S.now])
       IN RemoveMemberFx(S1, s, k, TRUE)

\* x, y: sequence number and sender index carried by the payload tags of burst steps (0 otherwise)
\* (PublishReqFx is defined after LeaveFx: a publisher may have to be expelled)

\* --------------------------------------------------------------------------
\* dealer: registrations
RegKeyById(S, id) == {k \in DOMAIN S.regs : S.regs[k].id = id}
SharedPolicies == {"roundrobin", "random", "first", "last"}

RegMetaFx(S, topic, sid, regid) == MetaPubFx(S, topic, [Base EXCEPT !.x = sid, !.y = regid])

RegisterFx(S, s, req, proc, o, newid) ==
  IF ~ValidURI(S.cfg.strict, o.match, proc) \/ IsWampURI(proc)
  THEN Emit(S, s, ErrorMsg(T_REGISTER, req, ErrInvalidURI, S))
  ELSE IF o.dcl /\ ~S.cfg.disclose /\ Attr(S, s, "authrole") # "trusted"
  THEN Emit(S, s, ErrorMsg(T_REGISTER, req, ErrDiscloseMe, S))
  ELSE
    LET k  == <<proc, NormMatch(o.match)>>
        ex == k \in DOMAIN S.regs
    IN IF ex /\ (S.regs[k].policy \notin SharedPolicies \/ S.regs[k].policy # o.invoke)
       THEN Emit(S, s, ErrorMsg(T_REGISTER, req, ErrProcExists, S))
       ELSE IF ex /\ s \in Rng(S.regs[k].callees)
       THEN \* the session already is a callee of this shared registration: same id, no change
            Emit(S, s, [Base EXCEPT !.k = "REGISTERED", !.req = req, !.a = S.regs[k].id, !.t = S.now])
       ELSE
         LET id == IF ex THEN S.regs[k].id ELSE newid
             S1 == [S EXCEPT !.regs = IF ex THEN [@ EXCEPT ![k].callees = Append(@, s), ![k].last = ""]
                                            ELSE (k :> [id |-> id, policy |-> o.invoke, callees |-> <<s>>,
                                                        last |-> "", disclose |-> o.dcl, fwd |-> o.fwd]) @@ @,
                             !.used.reg = @ \cup {id}]
             S2 == Emit(S1, s, [Base EXCEPT !.k = "REGISTERED", !.req = req, !.a = id, !.t = S.now])
             S3 == IF ex THEN S2
                   ELSE MetaPubFx(S2, U_registration_on_create,
                                  [Base EXCEPT !.x = SidOf(S, s), !.y = id, !.w = proc,
                                               !.pd = {<<"match", NormMatch(o.match)>>, <<"invoke", o.invoke>>}])
         IN RegMetaFx(S3, U_registration_on_register, SidOf(S, s), id)

RemoveCalleeFx(S, s, k) ==
  LET id   == S.regs[k].id
      left == SelectSeq(S.regs[k].callees, LAMBDA c : c # s)
      del  == left = <<>>
      S1   == [S EXCEPT !.regs = IF del THEN [kk \in DOMAIN @ \ {k} |-> @[kk]]
                                        ELSE [@ EXCEPT ![k].callees = left, ![k].last = ""]]
      S2   == RegMetaFx(S1, U_registration_on_unregister, SidOf(S, s), id)
  IN IF del THEN RegMetaFx(S2, U_registration_on_delete, SidOf(S, s), id) ELSE S2

UnregisterFx(S, s, req, regid) ==
  LET ks == RegKeyById(S, regid) IN
  IF ks = {} \/ (\A k \in ks : s \notin Rng(S.regs[k].callees))
  THEN Emit(S, s, ErrorMsg(T_UNREGISTER, req, ErrNoSuchReg, S))
  ELSE LET k  == CHOOSE kk \in ks : TRUE
           S1 == Emit(S, s, [Base EXCEPT !.k = "UNREGISTERED", !.req = req, !.y = regid, !.t = S.now])
       IN RemoveCalleeFx(S1, s, k)

\* --------------------------------------------------------------------------
\* dealer: calls
ExactRegs(S, u) == {k \in DOMAIN S.regs : k[2] = "exact" /\ k[1] = u}
PfxRegs(S, u)   == {k \in DOMAIN S.regs : k[2] = "prefix" /\ PrefixMatch(u, k[1])}
WcRegs(S, u)    == {k \in DOMAIN S.regs : k[2] = "wildcard" /\ WildcardMatch(u, k[1])}
\* exact first, otherwise the longest matching prefix, otherwise a matching wildcard
BestRegs(S, u) ==
  IF ExactRegs(S, u) # {} THEN ExactRegs(S, u)
  ELSE IF PfxRegs(S, u) # {}
       THEN {k \in PfxRegs(S, u) : \A k2 \in PfxRegs(S, u) : Len(k2[1]) <= Len(k[1])}
       ELSE WcRegs(S, u)

\* the callees the registration's policy allows for the next call
Eligible(r) ==
  LET n == Len(r.callees) IN
  IF n = 1 THEN {r.callees[1]}
  ELSE CASE r.policy = "first" -> {r.callees[1]}
         [] r.policy = "last"  -> {r.callees[n]}
         [] r.policy = "roundrobin" ->
              IF r.last = "" \/ r.last \notin Rng(r.callees) THEN Rng(r.callees)
              ELSE LET i == CHOOSE j \in 1..n : r.callees[j] = r.last
                   IN {r.callees[(i % n) + 1]}
         [] OTHER -> Rng(r.callees)       \* random

CallerIdent(S, c) == {<<"caller", ToString(SidOf(S, c))>>}
                     \cup {<<"caller_" \o a, Attr(S, c, a)>> : a \in {aa \in {"authid", "authrole"} : Present(S, c, aa)}}

CanInterrupt(S, callee) == Has(S, callee, "callee:call_canceling")

\* k = the registration chosen, callee = the callee chosen, inv = the invocation id
\* Progressive call invocations: a CALL with the option progress is one chunk of a call that
\* is continued by further CALLs with the same request id; o.prog = more chunks follow.
CanPCI(S, x) == Has(S, x, "callee:progressive_call_invocations") /\ CanInterrupt(S, x)

CallFx0(S, s, req, proc, o, tag, k, callee, inv) ==
  LET c == <<s, req>> IN
  IF BestRegs(S, proc) = {}
  THEN Emit(S, s, ErrorMsg(T_CALL, req, ErrNoSuchProc, S))
  ELSE
    LET r == S.regs[k] IN
    IF o.prog /\ ~CanPCI(S, callee)
    THEN Emit(S, s, ErrorMsg(T_CALL, req, ErrFeatureNotSupp, S))
    ELSE IF o.ppt # "" /\ ~Has(S, callee, "callee:payload_passthru_mode")
    THEN Emit(S, s, ErrorMsg(T_CALL, req, ErrFeatureNotSupp, S))
    ELSE IF ~r.disclose /\ o.dme /\ ~S.cfg.disclose
    THEN Emit(S, s, ErrorMsg(T_CALL, req, ErrDiscloseMe, S))
    ELSE
      LET ident == IF r.disclose \/ (o.dme /\ Has(S, callee, "callee:caller_identification"))
                   THEN CallerIdent(S, s) ELSE {}
          rprog == IF o.rprog /\ Has(S, callee, "callee:progressive_call_results") /\ CanInterrupt(S, callee)
                   THEN {<<"receive_progress", "true">>} ELSE {}
          fwdT  == o.tmo > 0 /\ Has(S, callee, "callee:call_timeout") /\ r.fwd
          tmo   == IF fwdT THEN {<<"timeout", ToString(o.tmo)>>} ELSE {}
          dl    == IF o.tmo > 0 /\ ~fwdT THEN S.now + o.tmo ELSE 0
          more  == IF o.prog THEN {<<"progress", "true">>} ELSE {}
          im    == [Base EXCEPT !.k = "INVOCATION", !.req = inv, !.a = r.id,
                                !.w = IF k[2] = "exact" THEN <<>> ELSE proc,
                                !.d = ident \cup rprog \cup tmo \cup more \cup PptD(o), !.p = tag, !.t = S.now]
          S1    == [S EXCEPT !.calls = (c :> [callee |-> callee, inv |-> inv, reg |-> r.id,
                                               canceled |-> FALSE, deadline |-> dl, inprog |-> o.prog, proc |-> proc]) @@ @,
                             !.used.inv[callee] = @ \cup {inv},
                             !.regs[k].last = IF r.policy = "roundrobin" /\ Len(r.callees) > 1 THEN callee ELSE @]
      IN Emit(S1, callee, im)

\* a further chunk of a call in progress: one INVOCATION to the same callee under the same
\* invocation id, under the registration the call was routed by - whatever has happened to
\* that registration meanwhile, and whatever procedure the chunk names
InProgress(S, c) == c \in DOMAIN S.calls /\ S.calls[c].inprog /\ ~S.calls[c].canceled
ChunkFx(S, s, req, o, tag) ==
  LET c == <<s, req>> cl == S.calls[c] IN
  Emit([S EXCEPT !.calls[c].inprog = o.prog], cl.callee,
       [Base EXCEPT !.k = "INVOCATION", !.req = cl.inv, !.a = cl.reg,
                    !.d = IF o.prog THEN {<<"progress", "true">>} ELSE {}, !.p = tag, !.t = S.now])

CallPre(S, s, req, proc, k, callee, inv) ==
  /\ <<s, req>> \notin DOMAIN S.calls
  /\ BestRegs(S, proc) # {} =>
        /\ k \in BestRegs(S, proc)
        /\ callee \in Eligible(S.regs[k])
        /\ inv \notin S.used.inv[callee]

DropCall(S, c) == [S EXCEPT !.calls = [cc \in DOMAIN @ \ {c} |-> @[cc]]]

InterruptMsg(S, c, mode, reason) ==
  [Base EXCEPT !.k = "INTERRUPT", !.req = S.calls[c].inv,
               !.d = {<<"mode", mode>>, <<"reason", reason>>}, !.t = S.now]

\* Can a message for s be queued right now?  (a reading session always has room)
Room(S, s) == ~S.sess[s].stalled \/ Len(S.sess[s].pend) < S.sess[s].cap

\* the dealer's cancel: used by CANCEL, by the call timer and by a departing callee
CancelCoreFx(S, c, mode, reason) ==
  LET cl  == S.calls[c]
      S1  == [S EXCEPT !.calls[c].canceled = TRUE, !.calls[c].deadline = 0]
      S2  == IF mode # "skip" /\ CanInterrupt(S, cl.callee)
             THEN Emit(S1, cl.callee, InterruptMsg(S, c, mode, reason)) ELSE S1
  \* kill: the callee's answer to the INTERRUPT ends the call - provided the INTERRUPT could be
  \* queued for it; a callee that does not read and whose queue is full is never waited for (C07):
  \* the call then ends at once, as with killnowait
  IN IF mode = "kill" /\ CanInterrupt(S, cl.callee) /\ Room(S, cl.callee) THEN S2
     ELSE Emit(DropCall(S2, c), c[1], ErrorMsg(T_CALL, c[2], reason, S))

CancelFx(S, s, req, mode) ==
  LET m == IF mode = "" THEN "killnowait" ELSE mode
      c == <<s, req>> IN
  IF m \notin {"skip", "kill", "killnowait"}
  THEN Emit(S, s, ErrorMsg(T_CANCEL, req, ErrInvalidArgument, S))
  ELSE IF c \notin DOMAIN S.calls \/ S.calls[c].canceled THEN S
  ELSE CancelCoreFx(S, c, m, ErrCanceled)

CallsByInv(S, callee, inv) == {c \in DOMAIN S.calls : S.calls[c].callee = callee /\ S.calls[c].inv = inv}

YieldFx0(S, s, inv, progress, ppt, tag) ==
  LET cs == CallsByInv(S, s, inv) IN
  IF cs = {}
  THEN IF progress
       THEN Emit(S, s, [Base EXCEPT !.k = "INTERRUPT", !.req = inv, !.d = {<<"mode", "killnowait">>}, !.t = S.now])
       ELSE S
  ELSE LET c  == CHOOSE cc \in cs : TRUE
           rm == [Base EXCEPT !.k = "RESULT", !.req = c[2], !.p = tag,
                              !.d = (IF progress THEN {<<"progress", "true">>} ELSE {})
                                    \cup (IF ppt # "" THEN {<<"ppt_scheme", ppt>>} ELSE {}), !.t = S.now]
       IN IF ~Room(S, c[1])
          THEN \* the one bounded exception of C07: the callee's handler keeps retrying
               \* (after 1, 2, 4, ... ms) until the caller has room or the result-retry
               \* period (60 s) is over; then the call is cancelled
               [S EXCEPT !.retry = Append(@, [callee |-> s, c |-> c, m |-> rm, final |-> ~progress, start |-> S.now])]
          ELSE LET S1 == Emit(S, c[1], rm) IN IF progress THEN S1 ELSE DropCall(S1, c)

InvErrorFx(S, s, inv, erruri, tag) ==
  LET cs == CallsByInv(S, s, inv) IN
  IF cs = {} THEN S
  ELSE LET c == CHOOSE cc \in cs : TRUE
       IN Emit(DropCall(S, c), c[1], [ErrorMsg(T_CALL, c[2], erruri, S) EXCEPT !.p = tag])

\* --------------------------------------------------------------------------
\* time: the router's call timers fire exactly at their deadline
Due(S, upto) == {c \in DOMAIN S.calls : S.calls[c].deadline # 0 /\ S.calls[c].deadline <= upto}

RECURSIVE FireFx(_, _)
FireFx(S, upto) ==
  IF Due(S, upto) = {} THEN [S EXCEPT !.now = upto]
  ELSE LET c  == CHOOSE cc \in Due(S, upto) : \A c2 \in Due(S, upto) : S.calls[cc].deadline <= S.calls[c2].deadline
           S1 == [S EXCEPT !.now = S.calls[c].deadline]
       IN FireFx(CancelCoreFx(S1, c, "killnowait", ErrTimeout), upto)

\* retry instants of a held RESULT: start + 2^k - 1 ms; the attempt at which 60 s
\* have passed is the last one
RECURSIVE Pow2(_)
Pow2(k) == IF k = 0 THEN 1 ELSE 2 * Pow2(k - 1)
RetryAt(r, k) == r.start + Pow2(k) - 1
RetryDeadline == 60000

\* the earliest event (call timer or retry attempt) in (S.now, upto], processed in time order
NextRetry(S, r) == CHOOSE k \in 1..17 : RetryAt(r, k) > S.now /\ \A j \in 1..(k-1) : RetryAt(r, j) <= S.now

RECURSIVE TimeFx(_, _)
TimeFx(S, upto) ==
  LET due   == Due(S, upto)
      tcall == IF due = {} THEN upto + 1
               ELSE S.calls[CHOOSE cc \in due : \A c2 \in due : S.calls[cc].deadline <= S.calls[c2].deadline].deadline
      tret  == IF S.retry = <<>> THEN upto + 1 ELSE RetryAt(S.retry[1], NextRetry(S, S.retry[1]))
  IN IF tcall > upto /\ tret > upto THEN [S EXCEPT !.now = upto]
     ELSE IF tcall <= tret
     THEN LET c  == CHOOSE cc \in due : \A c2 \in due : S.calls[cc].deadline <= S.calls[c2].deadline
              S1 == [S EXCEPT !.now = S.calls[c].deadline]
          IN TimeFx(CancelCoreFx(S1, c, "killnowait", ErrTimeout), upto)
     ELSE LET r  == S.retry[1]
              S1 == Settle([S EXCEPT !.now = tret])
              gone == r.c \notin DOMAIN S.calls \/ S.sess[r.c[1]].st # "joined"
          IN IF gone
             THEN \* the call is gone (its caller left): a held progressive result is answered with INTERRUPT
                  TimeFx(IF r.final \/ S.sess[r.callee].st # "joined" THEN [S1 EXCEPT !.retry = Tail(@)]
                         ELSE Emit([S1 EXCEPT !.retry = Tail(@)], r.callee,
                                   [Base EXCEPT !.k = "INTERRUPT", !.req = r.m.req, !.d = {<<"mode", "killnowait">>}, !.t = tret]), upto)
             ELSE IF Room(S1, r.c[1])
             THEN LET S2 == Emit([S1 EXCEPT !.retry = Tail(@)], r.c[1], [r.m EXCEPT !.t = tret])
                  IN TimeFx(IF r.final THEN DropCall(S2, r.c) ELSE S2, upto)
             ELSE IF tret - r.start >= RetryDeadline
             THEN TimeFx(CancelCoreFx([S1 EXCEPT !.retry = Tail(@)], r.c, "killnowait", ErrCanceled), upto)
             ELSE TimeFx(S1, upto)

AdvanceFx(S, ms) == HsExpireFx(TimeFx(S, S.now + ms))

\* a client stops / resumes reading
StallFx(S, s)  == [S EXCEPT !.sess[s].stalled = TRUE]
ResumeFx(S, s) ==
  LET q == S.sess[s].pend
      S1 == [S EXCEPT !.sess[s].stalled = FALSE, !.sess[s].pend = <<>>]
  IN EmitSeq(S1, [i \in DOMAIN q |-> [to |-> s, m |-> [q[i] EXCEPT !.t = S.now]]])

\* --------------------------------------------------------------------------
\* a session ends.  how \in {"goodbye", "lost", "violation", "kill", "killall"};
\* reason = GOODBYE reason for kills
RECURSIVE FoldRegs(_, _, _)
FoldRegs(S, keys, s) ==
  IF keys = {} THEN S
  ELSE LET k == CHOOSE kk \in keys : TRUE IN FoldRegs(RemoveCalleeFx(S, s, k), keys \ {k}, s)

RECURSIVE FoldSubs(_, _, _)
FoldSubs(S, keys, s) ==
  IF keys = {} THEN S
  ELSE LET k == CHOOSE kk \in keys : TRUE IN FoldSubs(RemoveMemberFx(S, s, k, FALSE), keys \ {k}, s)

RECURSIVE FoldCalls(_, _)
FoldCalls(S, cs) ==
  IF cs = {} THEN S
  ELSE LET c == CHOOSE cc \in cs : TRUE IN
       FoldCalls(Emit(DropCall(S, c), c[1], ErrorMsg(T_CALL, c[2], ErrCanceled, S)), cs \ {c})

RECURSIVE FoldTst(_, _)
FoldTst(S, q) ==
  IF q = <<>> THEN S
  ELSE FoldTst(PublishFx(S, "", q[1].topic, q[1].o, 0, [Base EXCEPT !.p = q[1].tag], FALSE), Tail(q))

LeaveFx(S, s, how, reason) ==
  LET S0 == [S EXCEPT !.sess[s].st = "gone"]
      \* what the departing session itself is told
      Sa == CASE how = "goodbye"   -> Emit(S0, s, [Base EXCEPT !.k = "GOODBYE", !.e = GoodbyeAndOut, !.t = S.now])
              [] how = "violation" -> Emit(S0, s, [Base EXCEPT !.k = "ABORT", !.e = ProtocolViolation, !.t = S.now])
              [] how \in {"kill", "killall"} ->
                                      Emit(S0, s, [Base EXCEPT !.k = "GOODBYE", !.e = reason, !.t = S.now])
              [] OTHER             -> S0
      \* dealer: registrations (with their meta events) ...
      Sb == FoldRegs(Sa, {k \in DOMAIN Sa.regs : s \in Rng(Sa.regs[k].callees)}, s)
      \* ... calls it was serving are answered to their callers (DevKillThenCalleeGone:
      \* the code skips calls with a kill-mode cancel outstanding) ...
      \* (a call of the session to itself is answered too: its transport is still open)
      served  == {c \in DOMAIN Sb.calls : Sb.calls[c].callee = s}
      skipped == IF "DevKillThenCalleeGone" \in Deviations
                 THEN {c \in served : Sb.calls[c].canceled} ELSE {}
      Sc == FoldCalls(Sb, served \ skipped)
      \* ... and its own calls are abandoned
      Sd == [Sc EXCEPT !.calls = [c \in {cc \in DOMAIN @ : cc[1] # s} |-> @[c]]]
      \* broker
      Se == FoldSubs(Sd, {k \in DOMAIN Sd.subs : s \in Sd.subs[k].members}, s)
      \* testaments and on_leave (not for kill_all: DevKillAllSilent is what the code does)
      silent == how = "killall" /\ "DevKillAllSilent" \in Deviations
      Sf == IF silent THEN Se ELSE FoldTst(Se, Se.tst[s])
      Sg == [Sf EXCEPT !.tst[s] = <<>>]
      Sh == IF silent THEN Sg
            ELSE MetaPubFx(Sg, U_session_on_leave,
                           [Base EXCEPT !.x = SidOf(S, s),
                                        !.pd = {<<"authid", Attr(S, s, "authid")>>, <<"authrole", Attr(S, s, "authrole")>>}])
  \* finally the router closes the session's transport
  IN Emit(Sh, s, [Base EXCEPT !.k = "CLOSED", !.t = S.now])

PublishReqFx2(S, s, req, topic, o, pubid, tag, x, y) ==
  IF ~ValidURI(S.cfg.strict, "exact", topic)
  THEN IF o.ack THEN Emit(S, s, ErrorMsg(T_PUBLISH, req, ErrInvalidURI, S)) ELSE S
  ELSE IF o.ppt # "" /\ ~Has(S, s, "publisher:payload_passthru_mode")
  THEN LeaveFx(S, s, "violation", "")
  ELSE IF o.dme /\ ~S.cfg.disclose
  THEN IF o.ack THEN Emit(S, s, ErrorMsg(T_PUBLISH, req, ErrDiscloseMe, S)) ELSE S
  ELSE LET S1 == PublishFx([S EXCEPT !.used.pub = @ \cup {pubid}], s, topic, o, pubid,
                           [Base EXCEPT !.p = tag, !.x = x, !.y = y], o.dme)
       IN IF o.ack THEN Emit(S1, s, [Base EXCEPT !.k = "PUBLISHED", !.req = req, !.a = pubid, !.t = S.now])
          ELSE S1
PublishReqFx(S, s, req, topic, o, pubid, tag) == PublishReqFx2(S, s, req, topic, o, pubid, tag, 0, 0)

\* payload passthru mode in calls.  A caller that names a scheme without having announced the
\* feature has violated the protocol (checked once a callee is chosen and can take the call);
\* so has a callee whose YIELD does: its call is answered with an error.  A final YIELD with a
\* scheme for a caller that did not announce the feature cannot be delivered: the call ends with
\* an error (C02: exactly one final reply), and the callee is told.
CallFx(S, s, req, proc, o, tag, k, callee, inv) ==
  IF /\ BestRegs(S, proc) # {} /\ ~(o.prog /\ ~CanPCI(S, callee))
     /\ o.ppt # "" /\ ~Has(S, s, "caller:payload_passthru_mode")
  THEN LeaveFx(S, s, "violation", "")
  ELSE CallFx0(S, s, req, proc, o, tag, k, callee, inv)

YieldFx(S, s, inv, progress, ppt, tag) ==
  LET cs == CallsByInv(S, s, inv)
      c  == CHOOSE cc \in cs : TRUE
  IN IF cs = {} \/ ppt = "" THEN YieldFx0(S, s, inv, progress, "", tag)
     ELSE IF ~Has(S, s, "callee:payload_passthru_mode")
     THEN LeaveFx(Emit(DropCall(S, c), c[1], ErrorMsg(T_CALL, c[2], ErrFeatureNotSupp, S)), s, "violation", "")
     ELSE IF ~Has(S, c[1], "caller:payload_passthru_mode")
     THEN LET S1 == Emit(S, s, ErrorMsg(T_YIELD, inv, ErrFeatureNotSupp, S))
          IN IF progress THEN S1
             ELSE Emit(DropCall(S1, c), c[1], ErrorMsg(T_CALL, c[2], ErrFeatureNotSupp, S))
     ELSE YieldFx0(S, s, inv, progress, ppt, tag)

\* --------------------------------------------------------------------------
\* bursts (C07/C08): the programs of several sessions, flattened; the effect of
\* the publications of a burst does not depend on their interleaving
RECURSIVE FlatProg(_, _)
FlatProg(prog, i) == IF i > Len(prog) THEN <<>>
                     ELSE [j \in DOMAIN prog[i].ops |-> [s |-> prog[i].s, op |-> prog[i].ops[j]]] \o FlatProg(prog, i + 1)

RECURSIVE PubAllFx(_, _)
PubAllFx(S, q) ==
  IF q = <<>> THEN S
  ELSE LET e == Head(q) IN
       PubAllFx(IF e.op.op = "publish" /\ e.s \in Joined(S) /\ ~S.sess[e.s].stalled
                \* publication ids of burst publications are not observed (0); id/ms carry seq/sender
                THEN PublishReqFx2(S, e.s, e.op.req, e.op.uri, e.op.o, 0, e.op.tag, e.op.id, e.op.ms) ELSE S, Tail(q))


\* --------------------------------------------------------------------------
\* the realm is closed (RemoveRealm / router Close): every attached session is told
\* GOODBYE wamp.close.system_shutdown and its transport is closed; no meta events
SystemShutdown == "wamp.close.system_shutdown"
CloseRealmFx(S) ==
  LET js == SetToSeq(Joined(S))
      ms(s) == << [to |-> s, m |-> [Base EXCEPT !.k = "GOODBYE", !.e = SystemShutdown, !.t = S.now]],
                  [to |-> s, m |-> [Base EXCEPT !.k = "CLOSED", !.t = S.now]] >>
      RECURSIVE all(_)
      all(i) == IF i > Len(js) THEN <<>> ELSE ms(js[i]) \o all(i + 1)
  IN [S EXCEPT !.sess = [s \in DOMAIN @ |-> [@[s] EXCEPT !.st = "gone"]],
               !.subs = [k \in DOMAIN S.hist |-> [@[k] EXCEPT !.members = {}]],
               !.regs = <<>>, !.calls = <<>>,
               !.tst = [s \in DOMAIN @ |-> <<>>],
               !.em = @ \o all(1)]

\* --------------------------------------------------------------------------
\* authorizer gate (C10).  cfg.authz = sequence of rules [mt, who, dec]; the first
\* rule whose message type and sender class match decides; no rule = allow.
\* Local sessions are not subject to authorization unless cfg.lauthz.
WhoMatches(S, s, who) ==
  CASE who = "any"    -> TRUE
    [] who = "local"  -> S.sess[s].local
    [] who = "remote" -> ~S.sess[s].local
    [] OTHER          -> Attr(S, s, "authrole") = who
Decision(S, s, mt) ==
  IF S.cfg.authz = <<>> \/ (S.sess[s].local /\ ~S.cfg.lauthz) THEN "allow"
  ELSE LET hits == {i \in DOMAIN S.cfg.authz : S.cfg.authz[i].mt = mt /\ WhoMatches(S, s, S.cfg.authz[i].who)}
       IN IF hits = {} THEN "allow" ELSE S.cfg.authz[CHOOSE i \in hits : \A j \in hits : i <= j].dec

\* message type of an input for the authorizer; "" = not subject to authorization
MsgType(i) ==
  CASE i.op = "subscribe" -> "SUBSCRIBE" [] i.op = "unsubscribe" -> "UNSUBSCRIBE" [] i.op = "publish" -> "PUBLISH"
    [] i.op = "register" -> "REGISTER" [] i.op = "unregister" -> "UNREGISTER" [] i.op \in {"call", "metacall"} -> "CALL"
    [] i.op = "cancel" -> "CANCEL" [] i.op = "yield" -> "YIELD" [] i.op = "inverror" -> "ERROR"
    \* (a GOODBYE is a message like any other: refused, the session stays and is told so)
    [] i.op = "leave" /\ i.how = "goodbye" -> "GOODBYE" [] OTHER -> ""
TypeCode(mt) ==
  CASE mt = "SUBSCRIBE" -> T_SUBSCRIBE [] mt = "UNSUBSCRIBE" -> T_UNSUBSCRIBE [] mt = "PUBLISH" -> T_PUBLISH
    [] mt = "REGISTER" -> T_REGISTER [] mt = "UNREGISTER" -> T_UNREGISTER [] mt = "CALL" -> T_CALL
    [] mt = "CANCEL" -> T_CANCEL [] mt = "ERROR" -> 8 [] mt = "GOODBYE" -> 6 [] OTHER -> T_YIELD

\* a refused request changes nothing and is answered by exactly one ERROR of the
\* request's type and id (an unacknowledged PUBLISH by nothing; a refused ERROR of a
\* callee is not a request: that it is not acted upon is all the property says)
SilentRefusal(i) == (i.op = "publish" /\ ~i.o.ack) \/ i.op = "inverror"
RefuseFx(S, s, type, req, dec, silent) ==
  IF silent THEN S
  ELSE Emit(S, s, ErrorMsg(type, req, IF dec = "fail" THEN ErrAuthzFailed ELSE ErrNotAuthorized, S))

\* --------------------------------------------------------------------------
\* meta API: every procedure is a view of (or an operation on) the current state
RECURSIVE Str(_)
Str(cs) == IF cs = <<>> THEN "" ELSE cs[1] \o Str(Tail(cs))

ResultMsg(S, req) == [Base EXCEPT !.k = "RESULT", !.req = req, !.y = 1, !.t = S.now]   \* y = 1: answer of a meta procedure
CallErr(S, s, req, uri) == Emit(S, s, ErrorMsg(T_CALL, req, uri, S))

RECURSIVE KillFx(_, _, _, _)
KillFx(S, victims, how, reason) ==
  IF victims = {} THEN S
  ELSE LET v == CHOOSE x \in victims : TRUE IN KillFx(LeaveFx(S, v, how, reason), victims \ {v}, how, reason)

KillReason(i) == IF i.uri2 = <<>> THEN CloseNormal ELSE Str(i.uri2)

ListByMatch(tbl) == {<<k[2], ToString(tbl[k].id)>> : k \in DOMAIN tbl}

\* retained publications of history key k selected by the filters of input i
\* (times in ms of the virtual clock, 0 / <<>> = filter absent)
HistSelect(S, k, f) ==
  LET q == S.hist[k]
      idx(pub) == IF \E j \in DOMAIN q : q[j].pub = pub THEN CHOOSE j \in DOMAIN q : q[j].pub = pub ELSE 0
      okTime(e) == /\ (f.from_t = 0 \/ e.t >= f.from_t) /\ (f.after_t = 0 \/ e.t > f.after_t)
                   /\ (f.before_t = 0 \/ e.t < f.before_t) /\ (f.until_t = 0 \/ e.t <= f.until_t)
      okPub(j)  == /\ (f.from_p = 0 \/ (idx(f.from_p) # 0 /\ j >= idx(f.from_p)))
                   /\ (f.after_p = 0 \/ (idx(f.after_p) # 0 /\ j > idx(f.after_p)))
                   /\ (f.before_p = 0 \/ idx(f.before_p) = 0 \/ j < idx(f.before_p))
                   /\ (f.until_p = 0 \/ idx(f.until_p) = 0 \/ j <= idx(f.until_p))
      okTopic(e) == f.topic = <<>> \/ e.topic = f.topic
      sel  == SelectSeq([j \in DOMAIN q |-> [j |-> j, e |-> q[j]]],
                        LAMBDA r : okTime(r.e) /\ okPub(r.j) /\ okTopic(r.e))
  IN [j \in DOMAIN sel |-> sel[j].e]

\* i = the input record (fields uri = procedure, id, uri2, args, o, tag, f); hp = the
\* publication ids logged for a get_events answer (binds ids not observed before);
\* pick = the registration id answered by wamp.registration.match (any best match)
MetaPre(S, i, pick) ==
  (i.uri = U_registration_match /\ BestRegs(S, i.uri2) # {}) => pick \in {S.regs[k].id : k \in BestRegs(S, i.uri2)}

MetaCallFx(S, s, req, i, hp, pick) ==
  LET proc == i.uri
      sid  == SidOf(S, s)
      byId == {v \in Joined(S) : SidOf(S, v) = i.id}
      R    == ResultMsg(S, req)
      subk == SubKeyById(S, i.id)
      regk == RegKeyById(S, i.id)
      k2   == <<i.uri2, NormMatch(i.o.match)>>
  IN
  CASE proc = U_session_count ->
         Emit(S, s, [R EXCEPT !.x = Cardinality({v \in Joined(S) : i.args = <<>> \/ Attr(S, v, "authrole") \in Rng(i.args)})])
    [] proc = U_session_list ->
         Emit(S, s, [R EXCEPT !.ids = {SidOf(S, v) : v \in {vv \in Joined(S) : i.args = <<>> \/ Attr(S, vv, "authrole") \in Rng(i.args)}}])
    [] proc = U_session_get ->
         IF byId = {} THEN CallErr(S, s, req, ErrNoSuchSession)
         ELSE LET v == CHOOSE vv \in byId : TRUE IN Emit(S, s, [R EXCEPT !.x = i.id, !.pd = IdentPairs(S, v)])
    [] proc = U_session_modify_details ->
         \* i.args = <<key, value>> (value "" = delete the key); fewer arguments = a malformed request.
         \* The change is in force for everything routed, disclosed, filtered, authorized or
         \* answered by the meta API afterwards.
         IF Len(i.args) < 2 \/ i.args[1] = "session" THEN CallErr(S, s, req, ErrInvalidArgument)
         ELSE IF byId = {} THEN CallErr(S, s, req, ErrNoSuchSession)
         ELSE LET v == CHOOSE vv \in byId : TRUE IN
              Emit([S EXCEPT !.sess[v].attrs[i.args[1]] = IF i.args[2] = "" THEN Deleted ELSE i.args[2]], s, R)
    [] proc = U_session_kill ->
         IF ~S.cfg.metakill THEN CallErr(S, s, req, ErrNoSuchProc)
         ELSE IF i.id = sid THEN CallErr(S, s, req, ErrNoSuchSession)       \* never the caller
         ELSE IF i.uri2 # <<>> /\ ~ValidURI(FALSE, "exact", i.uri2) THEN CallErr(S, s, req, ErrInvalidURI)
         ELSE IF byId = {} THEN CallErr(S, s, req, ErrNoSuchSession)
         ELSE KillFx(Emit(S, s, R), byId, "kill", KillReason(i))
    [] proc \in {U_session_kill_by_authid, U_session_kill_by_authrole, U_session_kill_all} ->
         IF ~S.cfg.metakill THEN CallErr(S, s, req, ErrNoSuchProc)
         ELSE IF proc # U_session_kill_all /\ i.args = <<>> THEN CallErr(S, s, req, ErrNoSuchSession)
         ELSE IF i.uri2 # <<>> /\ ~ValidURI(FALSE, "exact", i.uri2) THEN CallErr(S, s, req, ErrInvalidURI)
         ELSE LET vs == {v \in Joined(S) \ {s} :
                           CASE proc = U_session_kill_by_authid   -> Attr(S, v, "authid") = i.args[1]
                             [] proc = U_session_kill_by_authrole -> Attr(S, v, "authrole") = i.args[1]
                             [] OTHER -> TRUE}
              IN KillFx(Emit(S, s, [R EXCEPT !.x = Cardinality(vs)]), vs,
                        IF proc = U_session_kill_all THEN "killall" ELSE "kill", KillReason(i))
    [] proc = U_registration_list -> Emit(S, s, [R EXCEPT !.pd = ListByMatch(S.regs)])
    [] proc = U_registration_lookup ->
         Emit(S, s, [R EXCEPT !.x = IF k2 \in DOMAIN S.regs THEN S.regs[k2].id ELSE 0])
    [] proc = U_registration_match ->
         \* agrees with how a call to that URI would be routed (any best match)
         Emit(S, s, [R EXCEPT !.x = IF BestRegs(S, i.uri2) = {} THEN 0 ELSE pick])
    [] proc = U_registration_get ->
         IF regk = {} THEN CallErr(S, s, req, ErrNoSuchReg)
         ELSE LET k == CHOOSE kk \in regk : TRUE IN
              Emit(S, s, [R EXCEPT !.x = i.id, !.w = k[1], !.pd = {<<"match", k[2]>>, <<"invoke", S.regs[k].policy>>}])
    [] proc = U_registration_list_callees ->
         IF regk = {} THEN CallErr(S, s, req, ErrNoSuchReg)
         ELSE Emit(S, s, [R EXCEPT !.ids = {SidOf(S, c) : c \in Rng(S.regs[CHOOSE kk \in regk : TRUE].callees)}])
    [] proc = U_registration_count_callees ->
         IF regk = {} THEN CallErr(S, s, req, ErrNoSuchReg)
         ELSE Emit(S, s, [R EXCEPT !.x = Len(S.regs[CHOOSE kk \in regk : TRUE].callees)])
    [] proc = U_subscription_list -> Emit(S, s, [R EXCEPT !.pd = ListByMatch(S.subs)])
    [] proc = U_subscription_lookup ->
         Emit(S, s, [R EXCEPT !.x = IF k2 \in DOMAIN S.subs THEN S.subs[k2].id ELSE 0])
    [] proc = U_subscription_match ->
         Emit(S, s, [R EXCEPT !.ids = {S.subs[k].id : k \in {kk \in DOMAIN S.subs : MatchKey(kk, i.uri2)}}])
    [] proc = U_subscription_get ->
         IF subk = {} THEN CallErr(S, s, req, ErrNoSuchSub)
         ELSE LET k == CHOOSE kk \in subk : TRUE IN
              Emit(S, s, [R EXCEPT !.x = i.id, !.w = k[1], !.pd = {<<"match", k[2]>>}])
    [] proc = U_subscription_list_subscribers ->
         IF subk = {} THEN CallErr(S, s, req, ErrNoSuchSub)
         ELSE Emit(S, s, [R EXCEPT !.ids = {SidOf(S, c) : c \in S.subs[CHOOSE kk \in subk : TRUE].members}])
    [] proc = U_subscription_count_suscribers ->
         IF subk = {} THEN CallErr(S, s, req, ErrNoSuchSub)
         ELSE Emit(S, s, [R EXCEPT !.x = Cardinality(S.subs[CHOOSE kk \in subk : TRUE].members)])
    [] proc = U_session_add_testament ->
         Emit([S EXCEPT !.tst[s] = Append(@, [topic |-> i.uri2, o |-> i.o, tag |-> i.tag, scope |-> i.how])], s, R)
    [] proc = U_session_flush_testaments ->
         LET sc == IF i.how = "" THEN "destroyed" ELSE i.how IN
         Emit([S EXCEPT !.tst[s] = SelectSeq(@, LAMBDA t : (IF t.scope = "" THEN "destroyed" ELSE t.scope) # sc)], s, R)
    [] proc = U_subscription_get_events ->
         LET hk == {k \in subk : k \in DOMAIN S.hist} IN
         IF hk = {} THEN Emit(S, s, [R EXCEPT !.hl = <<>>])
         ELSE LET k    == CHOOSE kk \in hk : TRUE
                  sel0 == HistSelect(S, k, i.f)
                  sel1 == IF i.f.reverse THEN [j \in DOMAIN sel0 |-> sel0[Len(sel0) + 1 - j]] ELSE sel0
                  sel  == IF i.f.limit > 0 /\ Len(sel1) > i.f.limit
                          THEN SubSeq(sel1, Len(sel1) - i.f.limit + 1, Len(sel1)) ELSE sel1
                  \* bind publication ids that no session had observed before
                  bound(j) == IF sel[j].pub > 100000 /\ j \in DOMAIN hp THEN hp[j] ELSE sel[j].pub
                  ren(pub) == IF \E j \in DOMAIN sel : sel[j].pub = pub THEN bound(CHOOSE j \in DOMAIN sel : sel[j].pub = pub) ELSE pub
                  S1 == [S EXCEPT !.hist = [kk \in DOMAIN @ |-> [j \in DOMAIN @[kk] |-> [@[kk][j] EXCEPT !.pub = ren(@)]]],
                                  !.used.pub = @ \cup {bound(j) : j \in DOMAIN sel}]
              IN Emit(S1, s, [R EXCEPT !.hl = [j \in DOMAIN sel |-> [b |-> bound(j), v |-> IF k[2] = "exact" THEN <<"=">> ELSE sel[j].topic, p |-> sel[j].p]]])
    [] OTHER -> CallErr(S, s, req, ErrNoSuchProc)

\* --------------------------------------------------------------------------
\* hcfg: sequence of [u, m, n] (topic, match policy, limit); users: sequence of [id, role]
AuthCfg0 == [anon |-> TRUE, methods |-> <<"ticket">>, lauth |-> FALSE, crtmo |-> 60000]
InitCfg == [strict |-> FALSE, disclose |-> FALSE, metakill |-> TRUE, hcfg |-> <<>>, users |-> <<>>,
            authz |-> <<>>, lauthz |-> FALSE, late |-> FALSE, template |-> FALSE, closed |-> FALSE, auth |-> AuthCfg0]

\* the state of a freshly started realm with configuration c
StateOf(c) ==
  LET hk == [i \in DOMAIN c.hcfg |-> <<c.hcfg[i].u, NormMatch(c.hcfg[i].m)>>] IN
  [cfg |-> c, sess |-> <<>>, regs |-> <<>>, calls |-> <<>>, tst |-> <<>>,
   subs |-> [k \in Rng(hk) |-> [id |-> (CHOOSE i \in DOMAIN hk : hk[i] = k), members |-> {}]],
   hist |-> [k \in Rng(hk) |-> <<>>],
   used |-> [sub |-> 1..Len(hk), reg |-> {}, pub |-> {}, sid |-> {}, inv |-> <<>>],
   now |-> 0, retry |-> <<>>, em |-> <<>>]

InitWith(c) ==
  LET S == StateOf(c) IN
  /\ cfg = S.cfg /\ sess = S.sess /\ subs = S.subs /\ regs = S.regs /\ calls = S.calls
  /\ used = S.used /\ hist = S.hist /\ tst = S.tst /\ now = S.now /\ retry = <<>> /\ out = <<>>
=============================================================================
