--------------------------------- MODULE Gen ---------------------------------
(***************************************************************************)
(* Scenario generator: Core plus an environment that chooses client inputs *)
(* from small domains, aware of the specification state (so that a YIELD   *)
(* names a live, a finished, a foreign or a never-issued invocation, an    *)
(* UNSUBSCRIBE an own, a foreign or an unknown subscription, ...).         *)
(* Run with `tlc -simulate': every behaviour of length Depth is printed as *)
(* one JSON scenario (inputs only; whatever the specification predicted as *)
(* output is discarded and recomputed by trace validation).                *)
(***************************************************************************)
EXTENDS Core, Json

CONSTANTS Depth,      \* scenario length
          KindBag,    \* sequence of input kinds to draw from (duplicates are weights)
          Scripted,   \* TRUE: KindBag is a script - the n-th input is of the n-th kind (parameters stay random)
          Mode        \* "" | "hist" (realms with event history) | "authz" (realms with an authorizer)

VARIABLE h            \* the inputs so far

gvars == <<vars, h>>

\* --------------------------------------------------------------------------
\* domains
Names == IF Mode = "hs" THEN <<"s1", "s2", "s3", "s4", "s5", "s6", "s7", "s8", "s9", "s10", "s11", "s12", "s13", "s14", "s15", "s16", "s17", "s18">> ELSE <<"s1", "s2", "s3", "s4">>

U_a == <<"a">>                U_ab == <<"a",".","b">>        U_abc == <<"a",".","b",".","c">>
U_abx == <<"a",".","b","c">>  U_x == <<"x">>                 U_adot == <<"a",".">>
U_dotb == <<".","b">>         U_dot == <<".">>               U_adotdotc == <<"a",".",".","c">>
U_empty == <<>>               U_bad1 == <<"a",".",".","b">>  U_bad2 == <<"a"," ","b">>
U_bad3 == <<"a","#">>         U_up == <<"A",".","b">>        U_xy == <<"x",".","y">>
U_wampx == <<"w","a","m","p",".","x">>

Targets  == {U_a, U_ab, U_abc, U_abx, U_x, U_xy}                \* publish / call targets
BadURIs  == {U_bad1, U_bad2, U_bad3, U_empty, U_up, U_adot}
Keys     == {<<U_ab, "">>, <<U_ab, "exact">>, <<U_a, "">>, <<U_abc, "">>, <<U_xy, "">>,
             <<U_a, "prefix">>, <<U_ab, "prefix">>, <<U_adot, "prefix">>, <<U_empty, "prefix">>,
             <<U_adot, "wildcard">>, <<U_dotb, "wildcard">>, <<U_dot, "wildcard">>,
             <<U_adotdotc, "wildcard">>, <<U_x, "wildcard">>}
U_wampdot == <<"w","a","m","p",".">>
U_wc_oncreate == <<"w","a","m","p",".",".","o","n","_","c","r","e","a","t","e">>
U_wc_sub == <<"w","a","m","p",".","s","u","b","s","c","r","i","p","t","i","o","n",".">>
\* subscriptions to the meta topics themselves (exactly, by prefix, by wildcard)
MetaKeys == {<<U_wampdot, "prefix">>, <<U_wc_oncreate, "wildcard">>, <<U_wc_sub, "wildcard">>,
             <<U_subscription_on_delete, "">>, <<U_session_on_leave, "exact">>, <<U_session_on_join, "">>,
             <<U_registration_on_unregister, "">>, <<U_subscription_on_subscribe, "exact">>}
BadKeys  == {<<U_bad1, "">>, <<U_bad1, "prefix">>, <<U_bad2, "wildcard">>, <<U_adot, "">>,
             <<U_empty, "">>, <<U_bad3, "prefix">>, <<U_up, "">>, <<U_ab, "bogus">>}

FeatAll  == <<"subscriber:publisher_identification", "callee:call_canceling", "callee:call_timeout",
              "callee:caller_identification", "callee:progressive_call_results",
              "callee:progressive_call_invocations", "caller:progressive_call_invocations">>
FeatSets == {FeatAll, <<>>,
             <<"callee:call_canceling">>,
             <<"callee:progressive_call_results", "callee:call_timeout">>,
             <<"subscriber:publisher_identification", "callee:caller_identification",
               "callee:call_canceling", "callee:progressive_call_results">>,
             <<"callee:call_canceling", "callee:progressive_call_invocations", "caller:progressive_call_invocations">>,
             <<"caller:progressive_call_invocations", "callee:progressive_call_invocations">>,
             \* sessions that do not announce every role ("-role": left out of the HELLO); the router serves them all the same
             <<"-subscriber">>, <<"-callee", "-publisher">>, <<"callee:call_canceling", "-subscriber", "-caller">>}

\* payload passthru mode (Mode = "ppt"): sessions that announced it for every role, for some, for none
PptAll   == <<"publisher:payload_passthru_mode", "caller:payload_passthru_mode", "callee:payload_passthru_mode">>
FeatPpt  == {FeatAll \o PptAll, FeatAll \o PptAll, FeatAll,
             <<"callee:call_canceling", "callee:progressive_call_results">> \o PptAll,
             <<"callee:call_canceling", "callee:progressive_call_results", "callee:payload_passthru_mode">>,
             <<"callee:call_canceling", "callee:progressive_call_results", "caller:payload_passthru_mode", "publisher:payload_passthru_mode">>}

Users == <<[id |-> "alice", role |-> "user"], [id |-> "bob", role |-> "admin"], [id |-> "carol", role |-> "user"]>>

O0 == [ack |-> FALSE, xme |-> "", xl |-> <<>>, el |-> <<>>, hx |-> FALSE, he |-> FALSE,
       xa |-> <<>>, ea |-> <<>>, dme |-> FALSE, match |-> "", invoke |-> "", dcl |-> FALSE,
       fwd |-> FALSE, tmo |-> 0, rprog |-> FALSE, mode |-> "", prog |-> FALSE, err |-> "", ppt |-> ""]

F0 == [limit |-> 0, reverse |-> FALSE, from_t |-> 0, after_t |-> 0, before_t |-> 0, until_t |-> 0,
       from_p |-> 0, after_p |-> 0, before_p |-> 0, until_p |-> 0, topic |-> <<>>]

H0 == [first |-> "HELLO", realm |-> "ok", roles |-> "ok", methods |-> <<>>, authid |-> "", smuggle |-> FALSE,
       color |-> "", feats |-> <<>>, local |-> TRUE, q |-> 0]
A0 == [kind |-> "", key |-> "", ch |-> ""]

In0 == [op |-> "", s |-> "", req |-> 0, uri |-> <<>>, tag |-> "", id |-> 0, ms |-> 0, how |-> "",
        args |-> <<>>, uri2 |-> <<>>, f |-> F0, o |-> O0, prog |-> <<>>, join |-> [authid |-> "", color |-> "", feats |-> <<>>, local |-> TRUE, q |-> 0, tr |-> ""],
        hello |-> H0, resp |-> A0]

N      == Len(h) + 1
Tag    == "p" \o ToString(N)
Busy   == {retry[i].callee : i \in DOMAIN retry} \cup {retry[i].c[1] : i \in DOMAIN retry}
\* A callee whose handler is retrying a RESULT reads no input meanwhile.  A session
\* that does not read sends nothing either in generated scenarios (the ids chosen by
\* the router in its replies could not be bound while they sit in its queue).
J      == {x \in Joined(Cur) \ Busy : ~sess[x].stalled}
Sids   == {sess[s].id : s \in DOMAIN sess}
\* (sessions that already left testaments get more - in the other scope - and flush one scope while holding both)
Heirs == {x \in J : x \in DOMAIN tst /\ tst[x] # <<>>}
ScopesOf(x) == {IF tst[x][j].scope = "" THEN "destroyed" ELSE tst[x][j].scope : j \in DOMAIN tst[x]}

NextId(S) == IF S = {} THEN 1 ELSE (CHOOSE n \in S : \A m \in S : m <= n) + 1

Step(i, S) ==
  /\ h' = Append(h, i)
  /\ LET dec == IF MsgType(i) = "" THEN "allow" ELSE Decision(Cur, i.s, MsgType(i)) IN
     IF dec \in {"allow", "rewrite"} THEN Commit(S)
     ELSE Commit(RefuseFx(Cur, i.s, TypeCode(MsgType(i)), i.req, dec, SilentRefusal(i)))

\* --------------------------------------------------------------------------
\* inputs.  Random draws are bound by \E x \in {draw} so that each is made once
\* (TLC re-evaluates LET definitions at every use).
R(S) == {RandomElement(S)}
W(q) == {q[RandomElement(1..Len(q))]}          \* weighted: duplicates in the sequence are weights
PptPick(n) == IF Mode = "ppt" THEN W(<<"", "", "mqtt", "mqtt", "mqtt">>) ELSE {""}   \* (a parameter: TLC caches constant definitions)

GJoin ==
  \E n \in 1..Len(Names) :
    /\ Names[n] \notin DOMAIN sess
    /\ \A m \in 1..(n-1) : Names[m] \in DOMAIN sess
    /\ \E local \in (IF Mode = "disc" THEN W(<<FALSE, FALSE, FALSE, TRUE>>) ELSE R({TRUE, FALSE})), color \in R({"red", "blue", ""}),
          feats \in (IF Mode = "stall" THEN W(<<FeatAll, FeatAll, <<"callee:call_canceling">>, <<>>>>) ELSE IF Mode = "ppt" THEN R(FeatPpt) ELSE R(FeatSets)),
          lid \in R({"u1", "u2"}), rid \in R({"alice", "bob", "carol"}) :
       \E qs \in W(IF Mode = "stall" /\ Scripted THEN <<1, 1, 2>> ELSE IF Mode = "stall" THEN <<0, 1, 1, 2, 2>> ELSE <<0>>) :
       LET s == Names[n]
           j == [authid |-> IF local THEN lid ELSE rid, color |-> color, feats |-> feats, local |-> local, q |-> qs, tr |-> ""]
           i == [In0 EXCEPT !.op = "join", !.s = s, !.join = j]
       IN Step(i, JoinFx(Cur, s, j, NextId(used.sid)))

\* --------------------------------------------------------------------------
\* handshakes (C09)
FreeName == CHOOSE n \in 1..Len(Names) : Names[n] \notin DOMAIN sess /\ \A m \in 1..(n-1) : Names[m] \in DOMAIN sess
HasFree  == \E n \in 1..Len(Names) : Names[n] \notin DOMAIN sess
MethodLists == {<<>>, <<"anonymous">>, <<"ticket">>, <<"wampcra">>, <<"cryptosign">>, <<"bogus", "ticket">>, <<"#", "wampcra">>,
                <<"", "cryptosign">>, <<"bogus">>, <<"#">>, <<"wampcra", "ticket">>, <<"cryptosign", "anonymous">>,
                <<"anonymous", "ticket">>, <<"ticket", "cryptosign">>}
HsUsers == {"alice", "bob", "carol", "mallory", "mallory2", ""}

DoHello(hh) ==
  LET s == Names[FreeName]
      i == [In0 EXCEPT !.op = "hello", !.s = s, !.hello = hh]
  IN HasFree /\ Step(i, HelloFx(Cur, s, hh, NextId(used.sid)))

\* somebody who will certainly be attached (an observer for the others)
GHelloObserver ==
  \E feats \in R({FeatAll, <<>>}) :
    IF ~cfg.auth.lauth THEN DoHello([H0 EXCEPT !.authid = "u1", !.feats = feats])
    ELSE IF cfg.auth.anon THEN DoHello([H0 EXCEPT !.local = FALSE, !.methods = <<"anonymous">>, !.feats = feats])
    ELSE DoHello([H0 EXCEPT !.local = FALSE, !.methods = <<cfg.auth.methods[1]>>, !.authid = "bob", !.feats = feats])

GHello ==
  \E first \in W(<<"HELLO", "HELLO", "HELLO", "HELLO", "HELLO", "HELLO", "HELLO", "SUBSCRIBE", "AUTHENTICATE", "none">>),
     realm \in W(<<"ok", "ok", "ok", "ok", "ok", "ok", "ok", "missing", "empty">>),
     roles \in W(<<"ok", "ok", "ok", "ok", "ok", "ok", "ok", "none", "unknown", "badtype">>),
     local \in W(<<FALSE, FALSE, FALSE, TRUE>>), ml \in R(MethodLists), one \in R({"ticket", "wampcra", "cryptosign"}),
     authid \in R(HsUsers), smuggle \in R(BOOLEAN), echo \in R(1..3), feats \in R({FeatAll, <<>>}) :
    \* echo: take user and method of an earlier peer (so that its transcript can be replayed)
    LET prev == {x \in DOMAIN sess : sess[x].attrs.authid \in {"alice", "bob", "carol"}}
        pm(x) == IF sess[x].st \in {"pending", "rejected"} THEN sess[x].hs.method ELSE sess[x].attrs.authmethod
        cand == {x \in prev : pm(x) \in {"wampcra", "cryptosign", "ticket"}}
    IN IF echo = 1 /\ cand # {}
       THEN \E x \in R(cand) : DoHello([H0 EXCEPT !.local = FALSE, !.methods = <<pm(x)>>, !.authid = sess[x].attrs.authid,
                                                     !.smuggle = smuggle, !.feats = feats])
       ELSE DoHello([H0 EXCEPT !.first = first, !.realm = realm, !.roles = roles, !.local = local,
                               !.methods = IF echo = 2 THEN <<one>> ELSE ml, !.authid = authid, !.smuggle = smuggle, !.feats = feats])

Challenged == {s \in Pending(Cur) : sess[s].hs.method # "nohello"}
DoAuth(s, aa) ==
  LET i == [In0 EXCEPT !.op = "auth", !.s = s, !.resp = aa] IN Step(i, AuthFx(Cur, s, aa, NextId(used.sid)))

GAuthGood == \E s \in R(Challenged) : DoAuth(s, [A0 EXCEPT !.kind = "sig", !.key = sess[s].attrs.authid])

GAuth ==
  IF Challenged = {} THEN GHello
  ELSE \E s \in R(Challenged) :
    LET me == sess[s].attrs.authid
        m  == sess[s].hs.method
        pm(x) == IF sess[x].st \in {"pending", "rejected"} THEN sess[x].hs.method ELSE sess[x].attrs.authmethod
        same == {x \in DOMAIN sess \ {s} : sess[x].attrs.authid = me /\ pm(x) = m}
        anych == {x \in DOMAIN sess \ {s} : pm(x) = m}
        \* (somebody who claims an identity nobody has can only guess)
        stranger == me \notin {"alice", "bob", "carol"}
    IN \E kind \in (IF stranger THEN W(<<"empty", "empty", "empty", "wrongkey", "garbage", "valid">>)
                    ELSE W(<<"valid", "valid", "valid", "replay", "replay", "replay", "wrongkey", "otherch", "garbage", "other", "empty">>)),
          other \in R({"alice", "bob", "carol"} \ {me}) :
       CASE kind = "replay" /\ same # {} -> \E x \in R(same) : DoAuth(s, [kind |-> "sig", key |-> me, ch |-> x])
         [] kind = "otherch" /\ anych # {} -> \E x \in R(anych) : DoAuth(s, [kind |-> "sig", key |-> sess[x].attrs.authid, ch |-> x])
         [] kind = "wrongkey" -> DoAuth(s, [kind |-> "sig", key |-> other, ch |-> ""])
         [] kind = "garbage"  -> DoAuth(s, [kind |-> "garbage", key |-> "", ch |-> ""])
         \* a response anybody can make: signed with the empty key / the empty ticket
         [] kind = "empty"    -> DoAuth(s, [kind |-> "empty", key |-> "", ch |-> ""])
         [] kind = "other"    -> DoAuth(s, [kind |-> "other", key |-> "", ch |-> ""])
         [] OTHER             -> DoAuth(s, [kind |-> "sig", key |-> me, ch |-> ""])

GHsDrop ==
  IF Pending(Cur) = {} THEN GHello
  ELSE \E s \in R(Pending(Cur)) : Step([In0 EXCEPT !.op = "hsdrop", !.s = s], HsDropFx(Cur, s))

GIntrude ==
  LET rej == {s \in DOMAIN sess : sess[s].st = "rejected"} IN
  IF rej = {} THEN GHello
  ELSE \E s \in R(rej) : Step([In0 EXCEPT !.op = "intrude", !.s = s, !.req = N, !.tag = Tag], IntrudeFx(Cur, s))

\* an observer subscribes to every meta topic
GWampSub ==
  \E s \in J :
    LET i == [In0 EXCEPT !.op = "subscribe", !.s = s, !.req = N, !.uri = U_wampdot, !.o = [O0 EXCEPT !.match = "prefix"]]
    IN Step(i, SubscribeFx(Cur, s, N, U_wampdot, "prefix", NextId(used.sub)))

SidLists == {<<>>} \cup {<<a>> : a \in Sids} \cup {<<a, b>> : a \in Sids, b \in Sids} \cup {<<77>>}

XaSet == {<<>>, <<[a |-> "authrole", v |-> <<"trusted">>]>>, <<[a |-> "color", v |-> <<"red", "green">>]>>,
          <<[a |-> "authid", v |-> <<"alice", "u1">>]>>}
EaSet == {<<>>, <<[a |-> "authrole", v |-> <<"trusted", "admin">>]>>, <<[a |-> "color", v |-> <<"red">>]>>,
          <<[a |-> "authid", v |-> <<"bob", "u2">>], [a |-> "color", v |-> <<"red", "blue">>]>>}

SubTwins == {<<k[1], m>> : k \in {kk \in DOMAIN subs : ~IsWampURI(kk[1])}, m \in {"", "prefix", "wildcard"}}
            \ {<<k[1], IF k[2] = "exact" THEN "" ELSE k[2]>> : k \in DOMAIN subs}
GSubscribe ==
  \E pickc \in R(1..2) :
  \E s \in R(LET callees == {x \in J : \E k \in DOMAIN regs : x \in Rng(regs[k].callees)}
             \* (queues matter most for sessions that are served invocations)
             IN IF Mode = "stall" /\ callees # {} /\ pickc = 1 THEN callees ELSE J) : \E bad \in R(1..6) :
  \E k \in R(IF Mode = "disc" THEN {<<U_ab, "">>, <<U_a, "prefix">>, <<U_adot, "wildcard">>}
             \* realms with event history: mostly the configured subscriptions (subscribers come and go)
             ELSE IF Mode = "stall" /\ bad > 2 THEN {<<U_a, "prefix">>, <<U_x, "wildcard">>, <<U_ab, "">>}
             ELSE IF Mode = "hist" /\ DOMAIN hist # {} /\ bad > 2 THEN {<<kk[1], IF kk[2] = "exact" THEN "" ELSE kk[2]>> : kk \in DOMAIN hist}
             \* the URI of an existing subscription under another policy: independent subscriptions that share a string
             ELSE IF bad = 3 /\ SubTwins # {} THEN SubTwins
             ELSE IF bad = 1 THEN BadKeys ELSE IF bad = 2 THEN MetaKeys ELSE Keys) :
    LET i == [In0 EXCEPT !.op = "subscribe", !.s = s, !.req = N, !.uri = k[1], !.o = [O0 EXCEPT !.match = k[2]]]
    IN Step(i, SubscribeFx(Cur, s, N, k[1], k[2], NextId(used.sub)))

GUnsubscribe ==
  \E s \in J :
    LET ids  == {subs[k].id : k \in DOMAIN subs} \cup {NextId(used.sub) + 3}
        mine == {subs[k].id : k \in {kk \in DOMAIN subs : s \in subs[kk].members}}
        hmine == mine \cap {subs[k].id : k \in DOMAIN hist}
    IN \E own \in R(1..3) : \E id \in R(IF hmine # {} /\ own = 2 THEN hmine ELSE IF mine # {} /\ own # 1 THEN mine ELSE ids) :
         LET i == [In0 EXCEPT !.op = "unsubscribe", !.s = s, !.req = N, !.id = id]
         IN Step(i, UnsubscribeFx(Cur, s, N, id))

GPublish ==
  \E s \in J : \E bad \in R(1..8) :
  \E u \in R(LET deaf == {t \in Targets : \E k \in DOMAIN subs : MatchKey(k, t) /\ \E m \in subs[k].members : sess[m].stalled /\ Room(Cur, m)}
             IN IF Mode = "disc" THEN {U_ab, U_abc}
                \* fill the queue of a session that does not read
                ELSE IF Mode = "stall" /\ deaf # {} /\ bad > 4 THEN deaf
                ELSE IF bad = 1 THEN BadURIs ELSE Targets) :
  \E kind \in (IF Mode \in {"disc", "stall"} THEN R({7, 8}) ELSE R(1..8)), xl \in R(SidLists), el \in R(SidLists), xa \in R(XaSet), ea \in R(EaSet),
     ack \in (IF Mode = "stall" THEN {TRUE} ELSE R(BOOLEAN)), xme \in W(<<"", "", "t", "f", "f">>),
     dme \in (IF Mode = "disc" THEN W(<<TRUE, TRUE, TRUE, FALSE>>) ELSE W(<<FALSE, FALSE, TRUE>>)),
     ppt \in PptPick(N), un \in R(1..3) :
    LET o == [O0 EXCEPT !.ack = ack, !.xme = xme, !.dme = dme, !.ppt = ppt,
                        !.xl = IF kind \in {1, 2} THEN xl ELSE <<>>,
                        !.hx = kind \in {1, 2},
                        \* (now and then every eligible session is excluded as well)
                        !.el = IF kind = 2 /\ un = 2 /\ xl # <<>> THEN xl ELSE IF kind \in {2, 3} /\ el # <<>> THEN el ELSE <<>>,
                        !.he = (kind = 2 /\ un = 2 /\ xl # <<>>) \/ (kind \in {2, 3} /\ el # <<>>),
                        !.xa = IF kind \in {4, 6} THEN xa ELSE <<>>,
                        !.ea = IF kind \in {5, 6} THEN ea ELSE <<>>]
        \* (Mode "unser": an in-process publisher hands over a payload that cannot be serialised)
        tag == IF Mode = "unser" /\ sess[s].local /\ un = 1 THEN "u" \o ToString(N) ELSE Tag
        i == [In0 EXCEPT !.op = "publish", !.s = s, !.req = N, !.uri = u, !.tag = tag, !.o = o]
    IN Step(i, PublishReqFx(Cur, s, N, u, o, NextId(used.pub), tag))

GRegister ==
  \E s \in J : \E bad \in (IF Scripted THEN {2} ELSE R(1..6)) : \E k \in R(IF bad = 1 THEN BadKeys \cup {<<U_wampx, "">>} ELSE Keys) :
  \E inv \in W(<<"", "single", "roundrobin", "roundrobin", "first", "last", "random">>),
     dcl \in (IF Scripted THEN {FALSE} ELSE W(<<FALSE, FALSE, TRUE>>)), fwd \in R(BOOLEAN) :
    LET o == [O0 EXCEPT !.match = k[2], !.invoke = inv, !.dcl = dcl, !.fwd = fwd]
        i == [In0 EXCEPT !.op = "register", !.s = s, !.req = N, !.uri = k[1], !.o = o]
    IN Step(i, RegisterFx(Cur, s, N, k[1], o, NextId(used.reg)))

\* join an existing shared registration under its own policy (several callees per registration)
GRegisterShared ==
  LET shared == {k \in DOMAIN regs : regs[k].policy \in SharedPolicies} IN
  IF shared = {} THEN GRegister
  ELSE \E k \in R(shared) : \E s \in R(IF J \ Rng(regs[k].callees) # {} THEN J \ Rng(regs[k].callees) ELSE J) :
         LET o == [O0 EXCEPT !.match = k[2], !.invoke = regs[k].policy, !.fwd = regs[k].fwd, !.dcl = regs[k].disclose]
             i == [In0 EXCEPT !.op = "register", !.s = s, !.req = N, !.uri = k[1], !.o = o]
         IN Step(i, RegisterFx(Cur, s, N, k[1], o, NextId(used.reg)))

\* a callee other than the newest one leaves a registration with three or more callees
GUnregisterShared ==
  LET big == {k \in DOMAIN regs : Len(regs[k].callees) >= 3} IN
  IF big = {} THEN GRegisterShared
  ELSE \E k \in R(big) : \E pos \in R(1..(Len(regs[k].callees) - 1)) :
         LET s == regs[k].callees[pos]
             i == [In0 EXCEPT !.op = "unregister", !.s = s, !.req = N, !.id = regs[k].id]
         IN s \in J /\ Step(i, UnregisterFx(Cur, s, N, regs[k].id))

\* a call that is routed to a shared registration
GCallShared ==
  LET shared == {k \in DOMAIN regs : Len(regs[k].callees) >= 2}
      hits == {u \in Targets : BestRegs(Cur, u) \cap shared # {}} IN
  IF hits = {} THEN GRegisterShared
  ELSE \E s \in J : \E u \in R(hits) : \E tmo \in W(<<0, 0, 50>>) :
         LET o == [O0 EXCEPT !.tmo = tmo]
             i == [In0 EXCEPT !.op = "call", !.s = s, !.req = N, !.uri = u, !.tag = Tag, !.o = o]
         IN \E k \in R(BestRegs(Cur, u)) : \E callee \in R(Eligible(regs[k])) :
              /\ \A c \in Rng(regs[k].callees) : ~sess[c].stalled
              /\ Step(i, CallFx(Cur, s, N, u, o, Tag, k, callee, NextId(used.inv[callee])))

GUnregister ==
  \E s \in J :
    LET ids  == {regs[k].id : k \in DOMAIN regs} \cup {NextId(used.reg) + 3}
        mine == {regs[k].id : k \in {kk \in DOMAIN regs : s \in Rng(regs[kk].callees)}}
    IN \E own \in R(1..3) : \E id \in R(IF mine # {} /\ own # 1 THEN mine ELSE ids) :
         LET i == [In0 EXCEPT !.op = "unregister", !.s = s, !.req = N, !.id = id]
         IN Step(i, UnregisterFx(Cur, s, N, id))

AllCallees == UNION {Rng(regs[k].callees) : k \in DOMAIN regs}
GCall ==
  \E s \in (IF Scripted /\ J \ AllCallees # {} THEN J \ AllCallees ELSE J) : \E hit \in (IF Scripted THEN {2} ELSE R(1..3)) :
  \E u \in R(LET routable == {t \in Targets : BestRegs(Cur, t) # {}}
                 \* (scripted: a call whose INVOCATION can be observed - or, if every callee has stopped reading, one that is not routed)
                 readable == {t \in routable : \A k \in BestRegs(Cur, t) : \A c \in Rng(regs[k].callees) : ~sess[c].stalled}
             IN IF Scripted /\ readable # {} THEN readable
                ELSE IF Scripted /\ Targets \ routable # {} THEN Targets \ routable
                ELSE IF routable # {} /\ hit # 1 THEN routable ELSE Targets) :
  \E dme \in (IF Scripted THEN {FALSE} ELSE W(<<FALSE, FALSE, TRUE>>)), rprog \in (IF Scripted THEN {TRUE} ELSE R(BOOLEAN)),
     tmo \in (IF Scripted THEN {0} ELSE W(<<0, 0, 1, 50, 1000>>)), ppt \in PptPick(N) :
    LET o == [O0 EXCEPT !.dme = dme, !.rprog = rprog, !.tmo = tmo, !.ppt = ppt]
        i == [In0 EXCEPT !.op = "call", !.s = s, !.req = N, !.uri = u, !.tag = Tag, !.o = o]
    IN IF BestRegs(Cur, u) = {}
       THEN Step(i, CallFx(Cur, s, N, u, o, Tag, <<>>, "", 0))
       ELSE \E k \in R(BestRegs(Cur, u)) : \E callee \in R(Eligible(regs[k])) :
              /\ \A c \in Rng(regs[k].callees) : ~sess[c].stalled      \* the INVOCATION must be observable
              /\ Step(i, CallFx(Cur, s, N, u, o, Tag, k, callee, NextId(used.inv[callee])))

\* progressive call invocations: the first chunk (callers with and without the feature, callees with
\* and without), further chunks of a call in progress, the final chunk
GCallChunk ==
  LET open == {c \in DOMAIN calls : InProgress(Cur, c) /\ c[1] \in J} IN
  \E first \in R(1..3) :
    IF open # {} /\ first # 1
    THEN \E c \in R(open) : \E more \in W(<<TRUE, FALSE, FALSE>>), same \in R(1..4), other \in R(Targets) :
           \* (the chunk names the procedure of the call - or, rarely, another one)
           LET u == IF same = 1 THEN other ELSE calls[c].proc
               o == [O0 EXCEPT !.prog = more]
               i == [In0 EXCEPT !.op = "call", !.s = c[1], !.req = c[2], !.uri = u, !.tag = Tag, !.o = o]
           IN ~sess[calls[c].callee].stalled /\ Step(i, ChunkFx(Cur, c[1], c[2], o, Tag))
    ELSE \E s \in J : \E hit \in R(1..4) :
         \E u \in R(LET routable == {t \in Targets : BestRegs(Cur, t) # {}} IN IF routable # {} /\ hit # 1 THEN routable ELSE Targets) :
           LET o == [O0 EXCEPT !.prog = TRUE, !.rprog = hit = 2]
               i == [In0 EXCEPT !.op = "call", !.s = s, !.req = N, !.uri = u, !.tag = Tag, !.o = o]
           IN IF BestRegs(Cur, u) = {} THEN Step(i, CallFx(Cur, s, N, u, o, Tag, <<>>, "", 0))
              ELSE IF ~Has(Cur, s, "caller:progressive_call_invocations") THEN Step(i, LeaveFx(Cur, s, "violation", ""))
              ELSE \E k \in R(BestRegs(Cur, u)) : \E callee \in R(Eligible(regs[k])) :
                     /\ \A cc \in Rng(regs[k].callees) : ~sess[cc].stalled
                     /\ Step(i, CallFx(Cur, s, N, u, o, Tag, k, callee, NextId(used.inv[callee])))

GCancel ==
  \E s \in J :
    LET mine == {c[2] : c \in {cc \in DOMAIN calls : cc[1] = s}}
        all  == {c[2] : c \in DOMAIN calls} \cup {N + 50}
    IN \E own \in R(1..4) : \E req \in R(IF mine # {} /\ own # 1 THEN mine ELSE all) :
       \E mode \in W(<<"", "skip", "kill", "kill", "killnowait", "bogus">>) :
         LET i == [In0 EXCEPT !.op = "cancel", !.s = s, !.req = req, !.o = [O0 EXCEPT !.mode = mode]]
         IN Step(i, CancelFx(Cur, s, req, mode))

InvIds(s) == {calls[c].inv : c \in {cc \in DOMAIN calls : calls[cc].callee = s}}

\* kill-mode cancel of an own pending call (the caller then waits for the callee)
GCancelKill ==
  LET mine == {c \in DOMAIN calls : c[1] \in J /\ ~calls[c].canceled}
      deaf == {c \in mine : sess[calls[c].callee].stalled}
      full == {c \in deaf : ~Room(Cur, calls[c].callee)} IN
  IF mine = {} THEN GCancel
  ELSE \E c \in R(IF full # {} THEN full ELSE IF deaf # {} THEN deaf ELSE mine) :
         LET i == [In0 EXCEPT !.op = "cancel", !.s = c[1], !.req = c[2], !.o = [O0 EXCEPT !.mode = "kill"]]
         IN Step(i, CancelFx(Cur, c[1], c[2], "kill"))

\* the callee answers a live invocation (preferably one with a kill-mode cancel outstanding)
GAnswer ==
  LET live == {c \in DOMAIN calls : calls[c].callee \in J}
      waiting == {c \in live : calls[c].canceled} IN
  IF live = {} THEN GCancel
  ELSE \E c \in R(IF waiting # {} THEN waiting ELSE live) : \E how \in W(<<"yield", "yield", "prog", "error">>), ppt \in PptPick(N) :
         LET s == calls[c].callee  inv == calls[c].inv IN
         CASE how = "error" -> LET i == [In0 EXCEPT !.op = "inverror", !.s = s, !.id = inv, !.tag = Tag, !.o = [O0 EXCEPT !.err = "app.error.failed"]]
                               IN Step(i, InvErrorFx(Cur, s, inv, "app.error.failed", Tag))
           [] OTHER -> LET i == [In0 EXCEPT !.op = "yield", !.s = s, !.id = inv, !.tag = Tag, !.o = [O0 EXCEPT !.prog = (how = "prog"), !.ppt = ppt]]
                       IN Step(i, YieldFx(Cur, s, inv, how = "prog", ppt, Tag))

\* (scripted sequences: the callee whose caller does not read answers, not just anybody)
HotCallees == {calls[c].callee : c \in {cc \in DOMAIN calls : sess[cc[1]].stalled /\ calls[cc].callee \in J}}
GYield ==
  \E s \in (IF Scripted /\ HotCallees # {} THEN HotCallees ELSE J) :
    LET mine == InvIds(s)
        \* invocations whose caller does not read: the result-retry exception of C07
        blocked == {calls[c].inv : c \in {cc \in DOMAIN calls : calls[cc].callee = s /\ sess[cc[1]].stalled}}
        any  == used.inv[s] \cup {NextId(used.inv[s]) + 5}
    IN \E own \in (IF Scripted THEN {2} ELSE R(1..4)) : \E inv \in R(IF blocked # {} /\ own # 1 THEN blocked ELSE IF mine # {} /\ own # 1 THEN mine ELSE any) :
       \* (a progressive result first, to fill the queue of a caller that does not read)
       \E prog \in (IF Scripted /\ blocked # {} /\ \E cc \in DOMAIN calls : calls[cc].inv = inv /\ calls[cc].callee = s /\ Room(Cur, cc[1])
                    THEN {TRUE} ELSE W(<<FALSE, FALSE, TRUE>>)), ppt \in PptPick(N) :
         LET i == [In0 EXCEPT !.op = "yield", !.s = s, !.id = inv, !.tag = Tag, !.o = [O0 EXCEPT !.prog = prog, !.ppt = ppt]]
         IN Step(i, YieldFx(Cur, s, inv, prog, ppt, Tag))

GInvError ==
  \E s \in J :
    LET mine == InvIds(s)
        any  == used.inv[s] \cup {NextId(used.inv[s]) + 5}
    IN \E own \in R(1..4) : \E inv \in R(IF mine # {} /\ own # 1 THEN mine ELSE any) :
       \E e \in R({"app.error.failed", "wamp.error.canceled"}) :
         LET i == [In0 EXCEPT !.op = "inverror", !.s = s, !.id = inv, !.tag = Tag, !.o = [O0 EXCEPT !.err = e]]
         IN Step(i, InvErrorFx(Cur, s, inv, e, Tag))

GLeave ==
  \E heir \in R(1..2) : \E s \in R(IF Heirs # {} /\ heir = 1 THEN Heirs ELSE J) : \E how \in R({"goodbye", "lost", "violation"}) :
    LET i == [In0 EXCEPT !.op = "leave", !.s = s, !.how = how]
    IN Step(i, LeaveFx(Cur, s, how, ""))

GStall ==
  /\ {x \in J : ~sess[x].stalled} # {}
  /\ \E pick \in R(1..3) :
       \E s \in R(LET all == {x \in J : ~sess[x].stalled}
                      \* preferably somebody who is serving a call (its queue then matters to the dealer)
                      serving == {x \in all : \E c \in DOMAIN calls : calls[c].callee = x}
                      \* (scripted: somebody who holds a subscription other than to the meta topics - its queue can be filled)
                      listening == {x \in all : \E k \in DOMAIN subs : x \in subs[k].members /\ ~IsWampURI(k[1])}
                  IN IF Scripted /\ serving \cap listening # {} THEN serving \cap listening
                     ELSE IF Scripted /\ serving # {} THEN serving
                     ELSE IF Scripted /\ listening # {} THEN listening ELSE IF serving # {} /\ pick # 1 THEN serving ELSE all) :
         Step([In0 EXCEPT !.op = "stall", !.s = s], StallFx(Cur, s))

\* the caller of a pending call stops reading (its callee's next YIELD is then held back, C07)
GStallCaller ==
  LET cs == {c[1] : c \in {cc \in DOMAIN calls : cc[1] \in J /\ ~sess[cc[1]].stalled /\ calls[cc].callee \in J /\ calls[cc].callee # cc[1]}} IN
  IF cs = {} THEN GStall
  ELSE \E s \in R(cs) : Step([In0 EXCEPT !.op = "stall", !.s = s], StallFx(Cur, s))

GResume ==
  \E s \in {x \in Joined(Cur) : sess[x].stalled} :
    Step([In0 EXCEPT !.op = "resume", !.s = s], ResumeFx(Cur, s))

RECURSIVE FlatOps(_, _, _)
FlatOps(progs, s, j) == IF j > Len(progs) THEN <<>>
                        ELSE (IF progs[j].s = s THEN progs[j].ops ELSE <<>>) \o FlatOps(progs, s, j + 1)

\* --------------------------------------------------------------------------
\* bursts: concurrent programs (C07 completeness, C08 orders)
Idx(s) == CHOOSE n \in DOMAIN Names : Names[n] = s
BTag(s, n) == "B" \o ToString(Idx(s)) \o "." \o ToString(n)
PubProg(s, u, ack, n) ==
  [s |-> s, ops |-> [k \in 1..n |-> [In0 EXCEPT !.op = "publish", !.s = s, !.req = N * 100 + k, !.uri = u, !.tag = BTag(s, k),
                                                  !.id = k, !.ms = Idx(s),
                                                  !.o = [O0 EXCEPT !.ack = ack, !.xme = "f"]]]]

GBurstPub ==
  /\ Cardinality(J) >= 2
  /\ \E p1 \in R(J) : \E p2 \in R(J \ {p1}) : \E u1 \in R(Targets), u2 \in R(Targets), a1 \in R(BOOLEAN), a2 \in R(BOOLEAN),
        n1 \in R(2..4), n2 \in R(1..3) :
      LET prog == <<PubProg(p1, u1, a1, n1), PubProg(p2, u2, a2, n2)>>
          i == [In0 EXCEPT !.op = "burst", !.how = "pub", !.prog = prog]
      IN /\ h' = Append(h, i)
         /\ Commit(PubAllFx(Cur, FlatProg(prog, 1)))

\* publishers, a session subscribing/unsubscribing meanwhile, a caller whose callee answers
\* every invocation with two progressive results and a final one; always the last step
GBurstMix ==
  /\ Len(h) = Depth - 1
  /\ Cardinality(J) >= 2
  /\ \E p1 \in R(J) : \E c \in R(J \ {p1}) : \E u1 \in R(Targets), k1 \in R(Keys), k2 \in R(Keys), n1 \in R(3..5) :
      LET held == {subs[k].id : k \in {kk \in DOMAIN subs : c \in subs[kk].members}}
          churn == [s |-> c, ops |->
                      <<[In0 EXCEPT !.op = "subscribe", !.s = c, !.req = N * 100 + 50, !.uri = k1[1], !.o = [O0 EXCEPT !.match = k1[2]]]>>
                      \o (IF held # {} THEN <<[In0 EXCEPT !.op = "unsubscribe", !.s = c, !.req = N * 100 + 51, !.id = CHOOSE x \in held : TRUE]>> ELSE <<>>)
                      \o <<[In0 EXCEPT !.op = "subscribe", !.s = c, !.req = N * 100 + 52, !.uri = k2[1], !.o = [O0 EXCEPT !.match = k2[2]]]>>]
          \* a registration whose callees all read, called by somebody else
          callable == {k \in DOMAIN regs : k[2] = "exact" /\ Len(regs[k].callees) = 1 /\ regs[k].callees[1] \in J}
          rpc == IF callable = {} THEN <<>>
                 ELSE LET k == CHOOSE kk \in callable : TRUE
                          callee == regs[k].callees[1]
                          callers == J \ {callee}
                      IN IF callers = {} THEN <<>>
                         ELSE LET cl == CHOOSE x \in callers : TRUE IN
                              << [s |-> callee, ops |-> <<[In0 EXCEPT !.op = "respond", !.s = callee, !.id = 2]>>],
                                 [s |-> cl, ops |-> [j \in 1..3 |-> [In0 EXCEPT !.op = "call", !.s = cl, !.req = N * 100 + 60 + j,
                                                                                  !.uri = k[1], !.tag = BTag(cl, 10 + j),
                                                                                  !.o = [O0 EXCEPT !.rprog = TRUE]]]] >>
          \* request/reply loops against the dealer and the meta API (the workers must never
          \* wait on each other in a cycle)
          loops == LET a == CHOOSE x \in J : TRUE
                       b == IF J \ {a} = {} THEN a ELSE CHOOSE x \in J \ {a} : TRUE
                       \* ... while a registers and unregisters its procedure, b keeps calling it (a answers what reaches
                       \* it): no INVOCATION before REGISTERED, none after UNREGISTERED, whatever the interleaving (C08)
                   IN << [s |-> a, ops |-> <<[In0 EXCEPT !.op = "respond", !.s = a, !.id = 1],
                                             [In0 EXCEPT !.op = "regchurn", !.s = a, !.req = N * 100 + 1000, !.id = 25]>>],
                         [s |-> b, ops |-> <<[In0 EXCEPT !.op = "callloop", !.s = b, !.req = N * 100 + 3000, !.id = 25, !.tag = a],
                                             [In0 EXCEPT !.op = "metaloop", !.s = b, !.req = N * 100 + 2000, !.id = 25]>>] >>
          \* one program per session
          progs0 == <<PubProg(p1, u1, FALSE, n1), churn>> \o rpc \o (IF n1 # 4 THEN loops ELSE <<>>)
          names == {progs0[j].s : j \in DOMAIN progs0}
          merged == [s \in names |-> [s |-> s, ops |-> FlatOps(progs0, s, 1)]]
          prog == SetToSeq({merged[s] : s \in names})
          i == [In0 EXCEPT !.op = "burst", !.how = "mix", !.prog = prog]
      IN /\ h' = Append(h, i) /\ Commit(Cur)

\* a caller that stops reading while its callee streams progressive results (last step)
GBurstSlow ==
  /\ Len(h) = Depth - 1
  /\ \E n \in R(3..6), q \in R(1..2) :
       /\ h' = Append(h, [In0 EXCEPT !.op = "burst", !.how = "slow", !.id = n, !.ms = q]) /\ Commit(Cur)

GAdvance ==
  LET dls == {calls[c].deadline - now : c \in {cc \in DOMAIN calls : calls[cc].deadline # 0}}
             \cup {sess[s].hs.deadline - now : s \in Pending(Cur)}
  IN \E pick \in R(1..3) : \E d \in R(IF dls # {} THEN dls ELSE {1}) :
     \E ms \in (IF retry # <<>> THEN W(<<1, 5, 70000, 70000>>)
                ELSE IF dls # {} /\ pick # 1 THEN W(<<d, d, IF d > 1 THEN d - 1 ELSE d, d + 1>>)
                ELSE R({1, 49, 50, 2000})) :
       LET i == [In0 EXCEPT !.op = "advance", !.ms = ms]
       IN Step(i, AdvanceFx(Cur, ms))


\* --------------------------------------------------------------------------
\* meta API
U_kicked == <<"a","p","p",".","k","i","c","k","e","d">>
U_badreason == <<"b","a","d"," ","u","r","i">>
U_shutdown == <<"w","a","m","p",".","c","l","o","s","e",".","s","y","s","t","e","m","_","s","h","u","t","d","o","w","n">>
SidArgs  == Sids \cup {77}
RegArgs  == {regs[k].id : k \in DOMAIN regs} \cup {NextId(used.reg) + 3}
SubArgs  == {subs[k].id : k \in DOMAIN subs} \cup {NextId(used.sub) + 3}
Roles    == {"trusted", "user", "admin", "nobody"}
Authids  == {"u1", "u2", "alice", "bob", "carol"}

MetaStep(s, i0) ==
  LET i == [i0 EXCEPT !.op = "metacall", !.s = s, !.req = N] IN
  \E pick \in R({regs[k].id : k \in BestRegs(Cur, i.uri2)} \cup {0}) :
    /\ MetaPre(Cur, i, pick)
    /\ Step(i, MetaCallFx(Cur, s, N, i, <<>>, pick))

GMetaSession ==
  \E s \in J : \E which \in R(1..3) :
    CASE which = 1 -> \E a \in R({<<>>, <<"trusted">>, <<"user", "admin">>, <<"nobody">>}) :
                        MetaStep(s, [In0 EXCEPT !.uri = U_session_count, !.args = a])
      [] which = 2 -> \E a \in R({<<>>, <<"trusted">>, <<"user", "admin">>}) :
                        MetaStep(s, [In0 EXCEPT !.uri = U_session_list, !.args = a])
      [] OTHER     -> \E id \in R(SidArgs) : MetaStep(s, [In0 EXCEPT !.uri = U_session_get, !.id = id])

\* wamp.session.modify_details: identity details of a session (often the caller's own) change or go
GModify ==
  \E s \in J : \E own \in R(1..3) : \E id \in R(IF own = 1 THEN SidArgs ELSE {sess[v].id : v \in J}) :
  \E key \in W(<<"authid", "authrole", "authrole", "authrole", "color", "session">>),
     val \in W(<<"alice", "bob", "u1", "admin", "user", "trusted", "red", "blue", "", "">>), short \in W(<<FALSE, FALSE, FALSE, FALSE, FALSE, TRUE>>) :
    LET v == IF key = "color" /\ val \notin {"red", "blue", ""} THEN "red"
             ELSE IF key = "authid" /\ val \notin {"alice", "bob", "u1", ""} THEN "bob"
             ELSE IF key = "authrole" /\ val \notin {"admin", "user", "trusted", ""} THEN "admin" ELSE val
    IN MetaStep(s, [In0 EXCEPT !.uri = U_session_modify_details, !.id = id, !.args = IF short THEN <<key>> ELSE <<key, v>>])

GMetaReg ==
  \E s \in J : \E which \in R(1..6) : \E id \in R(RegArgs), k \in R(Keys), u \in R(Targets) :
    CASE which = 1 -> MetaStep(s, [In0 EXCEPT !.uri = U_registration_list])
      [] which = 2 -> MetaStep(s, [In0 EXCEPT !.uri = U_registration_lookup, !.uri2 = k[1], !.o = [O0 EXCEPT !.match = k[2]]])
      [] which = 3 -> MetaStep(s, [In0 EXCEPT !.uri = U_registration_match, !.uri2 = u])
      [] which = 4 -> MetaStep(s, [In0 EXCEPT !.uri = U_registration_get, !.id = id])
      [] which = 5 -> MetaStep(s, [In0 EXCEPT !.uri = U_registration_list_callees, !.id = id])
      [] OTHER     -> MetaStep(s, [In0 EXCEPT !.uri = U_registration_count_callees, !.id = id])

GMetaSub ==
  \E s \in J : \E which \in R(1..6) : \E id \in R(SubArgs), k \in R(Keys), u \in R(Targets) :
    CASE which = 1 -> MetaStep(s, [In0 EXCEPT !.uri = U_subscription_list])
      [] which = 2 -> MetaStep(s, [In0 EXCEPT !.uri = U_subscription_lookup, !.uri2 = k[1], !.o = [O0 EXCEPT !.match = k[2]]])
      [] which = 3 -> MetaStep(s, [In0 EXCEPT !.uri = U_subscription_match, !.uri2 = u])
      [] which = 4 -> MetaStep(s, [In0 EXCEPT !.uri = U_subscription_get, !.id = id])
      [] which = 5 -> MetaStep(s, [In0 EXCEPT !.uri = U_subscription_list_subscribers, !.id = id])
      [] OTHER     -> MetaStep(s, [In0 EXCEPT !.uri = U_subscription_count_suscribers, !.id = id])

\* (scripted: a session that does not read - preferably one whose queue is full - is killed by its id)
DeafIds == LET deaf == {v \in Joined(Cur) : sess[v].stalled}
               full == {v \in deaf : ~Room(Cur, v)}
           IN {sess[v].id : v \in IF full # {} THEN full ELSE deaf}
GKillOf(ws) ==
  \E s \in J : \E which \in (IF Scripted /\ DeafIds # {} THEN {1} ELSE W(ws)) :
  \E id \in R(IF Scripted /\ DeafIds # {} THEN DeafIds ELSE SidArgs), reason \in W(<<<<>>, <<>>, <<>>, <<>>, U_kicked, U_badreason, U_shutdown>>),
     role \in R(Roles), aid \in R(Authids) :
    CASE which = 1 -> MetaStep(s, [In0 EXCEPT !.uri = U_session_kill, !.id = id, !.uri2 = reason])
      [] which = 2 -> MetaStep(s, [In0 EXCEPT !.uri = U_session_kill_by_authid, !.args = <<aid>>, !.uri2 = reason])
      [] which = 3 -> MetaStep(s, [In0 EXCEPT !.uri = U_session_kill_by_authrole, !.args = <<role>>, !.uri2 = reason])
      [] OTHER     -> MetaStep(s, [In0 EXCEPT !.uri = U_session_kill_all, !.uri2 = reason])

GKill == GKillOf(<<1, 1, 2, 3, 4, 4>>)
\* (kind "kill1": never wamp.session.kill_all - for checks whose property has nothing to say about the
\* known finding at that call site)
GKill1 == GKillOf(<<1, 1, 2, 3>>)

\* topics somebody else would receive
Covered(s) == {u \in Targets : \E k \in DOMAIN subs : MatchKey(k, u) /\ subs[k].members \ {s} # {}}
GTestament ==
  \E again \in R(1..3) : \E s \in R(IF Heirs # {} /\ again # 1 THEN Heirs ELSE J) :
  \E which \in (IF s \in DOMAIN tst /\ Cardinality(ScopesOf(s)) = 2 THEN W(<<1, 2, 2>>) ELSE W(<<1, 1, 1, 2>>)) :
  \E u \in R(IF Covered(s) # {} THEN Covered(s) ELSE Targets),
     scope \in (IF which = 1 /\ s \in DOMAIN tst /\ ScopesOf(s) = {"destroyed"} THEN {"detached"}
                ELSE IF which = 1 /\ s \in DOMAIN tst /\ ScopesOf(s) = {"detached"} THEN R({"", "destroyed"})
                ELSE R({"", "destroyed", "detached"})),
     xme \in W(<<"", "f">>), xl \in R(SidLists), kind \in R(1..3) :
    LET o == [O0 EXCEPT !.xme = xme, !.xl = IF kind = 1 THEN xl ELSE <<>>, !.hx = kind = 1] IN
    CASE which = 1 -> MetaStep(s, [In0 EXCEPT !.uri = U_session_add_testament, !.uri2 = u, !.how = scope,
                                              !.tag = "T" \o ToString(N), !.o = o])
      [] OTHER     -> MetaStep(s, [In0 EXCEPT !.uri = U_session_flush_testaments, !.how = scope])

EntryTimes == UNION {{hist[k][j].t : j \in DOMAIN hist[k]} : k \in DOMAIN hist} \cup {now}
PubArgs  == {p \in used.pub : p < 100000} \cup {77}

HistPubs   == {p \in UNION {{hist[k][j].pub : j \in DOMAIN hist[k]} : k \in DOMAIN hist} : p < 100000}
HistTopics == UNION {{hist[k][j].topic : j \in DOMAIN hist[k]} : k \in DOMAIN hist}
GGetEvents ==
  \E s \in J : \E full \in R(1..3) :
  \E id \in R(LET nonempty == {subs[k].id : k \in {kk \in DOMAIN hist : hist[kk] # <<>>}}
              IN IF nonempty # {} /\ full # 1 THEN nonempty
                 ELSE IF DOMAIN hist # {} THEN {subs[k].id : k \in DOMAIN hist} \cup {NextId(used.sub) + 3} ELSE SubArgs) :
  \E kind \in W(<<1, 2, 3, 4, 5, 6, 7, 8, 9, 10, 11, 12, 12, 13, 13, 14, 14, 15, 15, 16, 17, 18, 19, 20, 21, 21, 21, 22, 22, 22, 23, 23, 24, 24>>), t \in R(EntryTimes), dt \in R({-1, 0, 1}), lim \in R(1..3), pick \in R(1..4) :
  \E pb \in R(IF HistPubs # {} /\ pick # 1 THEN HistPubs ELSE PubArgs), pb2 \in R(IF HistPubs # {} /\ pick # 1 THEN HistPubs ELSE PubArgs),
     u \in R(IF HistTopics # {} /\ pick # 2 THEN HistTopics ELSE Targets) :
    LET tt == IF t + dt > 0 THEN t + dt ELSE 1
        f == CASE kind = 1  -> [F0 EXCEPT !.limit = lim]
               [] kind = 2  -> [F0 EXCEPT !.reverse = TRUE]
               [] kind = 3  -> [F0 EXCEPT !.from_t = tt]
               [] kind = 4  -> [F0 EXCEPT !.after_t = tt]
               [] kind = 5  -> [F0 EXCEPT !.before_t = tt]
               [] kind = 6  -> [F0 EXCEPT !.until_t = tt]
               [] kind = 7  -> [F0 EXCEPT !.from_p = pb]
               [] kind = 8  -> [F0 EXCEPT !.after_p = pb]
               [] kind = 9  -> [F0 EXCEPT !.before_p = pb]
               [] kind = 10 -> [F0 EXCEPT !.until_p = pb]
               [] kind = 11 -> [F0 EXCEPT !.topic = u]
               \* pairs of filters
               [] kind = 12 -> [F0 EXCEPT !.topic = u, !.from_p = pb]
               [] kind = 13 -> [F0 EXCEPT !.topic = u, !.after_p = pb]
               [] kind = 14 -> [F0 EXCEPT !.topic = u, !.before_p = pb]
               [] kind = 15 -> [F0 EXCEPT !.topic = u, !.until_p = pb]
               [] kind = 16 -> [F0 EXCEPT !.from_p = pb, !.until_p = pb2]
               [] kind = 17 -> [F0 EXCEPT !.after_p = pb, !.before_t = tt]
               [] kind = 18 -> [F0 EXCEPT !.topic = u, !.from_t = tt]
               [] kind = 19 -> [F0 EXCEPT !.from_t = tt, !.limit = lim]
               \* a limit together with a filter that rejects some of the newest entries
               [] kind = 21 -> [F0 EXCEPT !.topic = u, !.limit = lim]
               [] kind = 22 -> [F0 EXCEPT !.before_p = pb, !.limit = lim]
               [] kind = 23 -> [F0 EXCEPT !.until_t = tt, !.limit = lim]
               [] kind = 24 -> [F0 EXCEPT !.until_p = pb, !.limit = lim]
               [] OTHER     -> F0
    IN MetaStep(s, [In0 EXCEPT !.uri = U_subscription_get_events, !.id = id, !.f = f])

\* --------------------------------------------------------------------------
\* one kind is drawn per step so that the mix does not depend on how many
\* parameter values a kind has
GenNext ==
  /\ Len(h) < Depth
  /\ \E coin \in R(1..2) :
     \E kind \in (IF Mode = "hs"
                   THEN (IF J = {} /\ Challenged = {} THEN {"helloobs"} ELSE IF J = {} THEN {"authgood"} ELSE W(KindBag))
                   ELSE IF (IF Scripted THEN Len(h) < 2 ELSE Cardinality(J) < 2) /\ \E n \in DOMAIN Names : Names[n] \notin DOMAIN sess
                   THEN {"join"}
                   ELSE IF Len(h) = Depth - 1 /\ \E n \in DOMAIN KindBag : KindBag[n] = "bmix" THEN {"bmix"}
                   ELSE IF Len(h) = Depth - 1 /\ \E n \in DOMAIN KindBag : KindBag[n] = "bslow" THEN {"bslow"}
                   \* a kill-mode cancel is outstanding: let the callee answer soon
                   ELSE IF coin = 1 /\ (\E n \in DOMAIN KindBag : KindBag[n] = "answer")
                           /\ (\E c \in DOMAIN calls : calls[c].canceled /\ calls[c].callee \in J) THEN {"answer"}
                   \* (scripted: when nobody is able to send anything - handlers held, sessions not reading - time passes)
                   ELSE IF Scripted /\ J = {} /\ KindBag[(Len(h) % Len(KindBag)) + 1] \notin {"join", "adv", "resume"} THEN {"adv"}
                   ELSE IF Scripted THEN {KindBag[(Len(h) % Len(KindBag)) + 1]}
                   ELSE W(KindBag)) :
     CASE kind = "join"   -> GJoin
       [] kind = "sub"    -> GSubscribe
       [] kind = "unsub"  -> GUnsubscribe
       [] kind = "pub"    -> GPublish
       [] kind = "reg"    -> GRegister
       [] kind = "regsh"  -> GRegisterShared
       [] kind = "unregsh" -> GUnregisterShared
       [] kind = "callsh" -> GCallShared
       [] kind = "unreg"  -> GUnregister
       [] kind = "call"   -> GCall
       [] kind = "pcall"  -> GCallChunk
       [] kind = "cancel" -> GCancel
       [] kind = "ckill"  -> GCancelKill
       [] kind = "answer" -> GAnswer
       [] kind = "yield"  -> GYield
       [] kind = "inverr" -> GInvError
       [] kind = "leave"  -> GLeave
       [] kind = "adv"    -> GAdvance
       [] kind = "bpub"   -> GBurstPub
       [] kind = "bmix"   -> GBurstMix
       [] kind = "bslow"  -> GBurstSlow
       [] kind = "stall"  -> GStall
       [] kind = "stallc" -> GStallCaller
       [] kind = "resume" -> GResume
       [] kind = "msess"  -> GMetaSession
       [] kind = "mmod"   -> GModify
       [] kind = "mreg"   -> GMetaReg
       [] kind = "msub"   -> GMetaSub
       [] kind = "kill"   -> GKill
       [] kind = "kill1"  -> GKill1
       [] kind = "tst"    -> GTestament
       [] kind = "hist"   -> GGetEvents
       [] kind = "hello"  -> GHello
       [] kind = "helloobs" -> GHelloObserver
       [] kind = "auth"   -> GAuth
       [] kind = "authgood" -> GAuthGood
       [] kind = "hsdrop" -> GHsDrop
       [] kind = "intrude" -> GIntrude
       [] kind = "wsub"   -> GWampSub
       [] OTHER           -> GAdvance

HistCfgs == {<<[u |-> U_ab, m |-> "exact", n |-> 2]>>,
             <<[u |-> U_a, m |-> "prefix", n |-> 3]>>,
             <<[u |-> U_adot, m |-> "wildcard", n |-> 2], [u |-> U_ab, m |-> "", n |-> 1]>>,
             <<[u |-> U_x, m |-> "prefix", n |-> 4], [u |-> U_a, m |-> "prefix", n |-> 1]>>}
AuthzSets == {<<[mt |-> "PUBLISH", who |-> "remote", dec |-> "deny"], [mt |-> "CALL", who |-> "user", dec |-> "fail"]>>,
              <<[mt |-> "SUBSCRIBE", who |-> "user", dec |-> "deny"], [mt |-> "REGISTER", who |-> "remote", dec |-> "fail"],
                [mt |-> "PUBLISH", who |-> "admin", dec |-> "rewrite"]>>,
              <<[mt |-> "CALL", who |-> "any", dec |-> "rewrite"], [mt |-> "UNSUBSCRIBE", who |-> "any", dec |-> "deny"],
                [mt |-> "CANCEL", who |-> "remote", dec |-> "deny"], [mt |-> "YIELD", who |-> "trusted", dec |-> "fail"]>>,
              <<[mt |-> "UNREGISTER", who |-> "any", dec |-> "fail"], [mt |-> "YIELD", who |-> "remote", dec |-> "rewrite"],
                [mt |-> "PUBLISH", who |-> "local", dec |-> "deny"]>>,
              <<[mt |-> "ERROR", who |-> "any", dec |-> "deny"], [mt |-> "CALL", who |-> "user", dec |-> "deny"]>>,
              <<[mt |-> "ERROR", who |-> "remote", dec |-> "rewrite"], [mt |-> "ERROR", who |-> "trusted", dec |-> "fail"],
                [mt |-> "PUBLISH", who |-> "any", dec |-> "deny"]>>,
              <<[mt |-> "PUBLISH", who |-> "any", dec |-> "allow"]>>,
              <<[mt |-> "GOODBYE", who |-> "remote", dec |-> "deny"], [mt |-> "SUBSCRIBE", who |-> "admin", dec |-> "fail"]>>,
              <<[mt |-> "GOODBYE", who |-> "user", dec |-> "fail"], [mt |-> "CALL", who |-> "remote", dec |-> "deny"]>>}
AuthCfgs == {[anon |-> an, methods |-> ms, lauth |-> la, crtmo |-> tmo] :
               an \in BOOLEAN, la \in BOOLEAN, tmo \in {2000, 60000},
               ms \in {<<"ticket", "wampcra", "cryptosign">>, <<"wampcra">>, <<"cryptosign", "ticket">>, <<"ticket">>, <<"cryptosign">>}}
GenCfg(st, d, hc, az, la) == [strict |-> st, disclose |-> d, metakill |-> TRUE, hcfg |-> hc, users |-> Users,
                              authz |-> az, lauthz |-> la, late |-> FALSE, template |-> FALSE, closed |-> FALSE, auth |-> AuthCfg0]

\* several initial states: the simulator draws one per behaviour
GenInit == h = <<>> /\ \E st \in {0, 1, 2}, d \in BOOLEAN, hc \in (IF Mode = "hist" THEN HistCfgs ELSE {<<>>}),
                            az \in (IF Mode = "authz" THEN AuthzSets ELSE {<<>>}), la \in (IF Mode = "authz" THEN BOOLEAN ELSE {FALSE}) :
                         \E au \in (IF Mode = "hs" THEN AuthCfgs ELSE {AuthCfg0}) :
                         InitWith([GenCfg(st = 2, d, hc, az, la) EXCEPT !.auth = au])
GenSpec == GenInit /\ [][GenNext]_gvars

\* prints the finished scenario (evaluated on every state of the simulation)
Emitted == Len(h) < Depth \/ PrintT(<<"SCN", ToJson([cfg |-> cfg, steps |-> h])>>)
=============================================================================
