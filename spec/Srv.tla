--------------------------------- MODULE Srv ---------------------------------
(***************************************************************************)
(* The network front ends of the router (router/websocketserver.go,         *)
(* router/rawsocketserver.go) as a connecting client sees them (C15: the    *)
(* transports are interchangeable, whichever serializer is used).           *)
(*                                                                          *)
(* Websocket: the HTTP upgrade is refused for a foreign Origin unless it is *)
(* allowed; of the subprotocols the client offers the server selects - in   *)
(* its own order json, msgpack, cbor - the first one offered; with none of  *)
(* them the connection is upgraded and closed at once.  The selected        *)
(* subprotocol fixes the serializer and the websocket frame type (text for  *)
(* JSON, binary otherwise) of everything the router sends.                  *)
(* Rawsocket: the listener answers the handshake of Wire!Handshake with the *)
(* receive limit the server was configured with; a frame above that limit   *)
(* ends the connection.                                                     *)
(* On both, HELLO is answered by WELCOME and an acknowledged PUBLISH by     *)
(* PUBLISHED in the negotiated serializer.                                  *)
(***************************************************************************)
EXTENDS Wire

VARIABLES sphase,     \* "new" | "up" (transport established) | "joined" | "closed"
          proto,      \* websocket: the selected subprotocol ("" = none)
          origins,    \* websocket: "none" (default same-origin rule) | "list" (good.example and *.glob.example allowed) | "star"
          sobs        \* what the client observed in the last step

svars == <<wvars, sphase, proto, origins, sobs>>

ServerOrder == <<"wamp.2.json", "wamp.2.msgpack", "wamp.2.cbor">>
Rng(f) == {f[i] : i \in DOMAIN f}

Select(offers) ==
  IF \E i \in DOMAIN ServerOrder : ServerOrder[i] \in Rng(offers)
  THEN ServerOrder[CHOOSE i \in DOMAIN ServerOrder : ServerOrder[i] \in Rng(offers) /\ \A j \in 1..(i - 1) : ServerOrder[j] \notin Rng(offers)]
  ELSE ""

\* origin: "" (header absent) | "same" (the request's own host) | "good" (good.example) | "glob" (x.glob.example) | "evil"
OriginOK(origin) ==
  \/ origin \in {"", "same"}
  \/ origins = "star"
  \/ origins = "list" /\ origin \in {"good", "glob"}

FrameOf(p) == IF p = "wamp.2.json" THEN "text" ELSE "binary"
SerOf(p)   == CASE p = "wamp.2.json" -> "json" [] p = "wamp.2.msgpack" -> "msgpack" [] p = "wamp.2.cbor" -> "cbor" [] OTHER -> ""

NoSObs == [status |-> 0, proto |-> "", reply |-> "", frame |-> "", closed |-> FALSE]

\* the websocket upgrade request
Upgrade(offers, origin) ==
  /\ sphase = "new" /\ UNCHANGED <<wvars, origins>>
  /\ IF ~OriginOK(origin)
     THEN /\ sphase' = "closed" /\ proto' = ""
          /\ sobs' = [NoSObs EXCEPT !.status = 403, !.closed = TRUE]
     ELSE LET p == Select(offers) IN
          /\ proto' = p
          /\ sphase' = IF p = "" THEN "closed" ELSE "up"
          /\ sobs' = [NoSObs EXCEPT !.status = 101, !.proto = p, !.closed = (p = "")]

\* HELLO in the negotiated serializer -> WELCOME in the negotiated serializer and frame type
Hello ==
  /\ sphase = "up" /\ UNCHANGED <<wvars, proto, origins>>
  /\ sphase' = "joined"
  /\ sobs' = [NoSObs EXCEPT !.reply = "WELCOME", !.frame = IF proto = "" THEN "" ELSE FrameOf(proto)]

\* an acknowledged PUBLISH -> PUBLISHED
Pub ==
  /\ sphase = "joined" /\ UNCHANGED <<wvars, sphase, proto, origins>>
  /\ sobs' = [NoSObs EXCEPT !.reply = "PUBLISHED", !.frame = IF proto = "" THEN "" ELSE FrameOf(proto)]

\* wamp.session.get for the session itself: answered - and whatever the HTTP upgrade left in the
\* transport details for authenticators only (tracking cookies, the captured request) is not in it
SGet ==
  /\ sphase = "joined" /\ UNCHANGED <<wvars, sphase, proto, origins>>
  /\ sobs' = [NoSObs EXCEPT !.reply = "RESULT", !.frame = IF proto = "" THEN "" ELSE FrameOf(proto)]

\* the rawsocket listener: the handshake of Wire, then the same session life
RsHandshake(magicOK, lenNibble, serNibble, reservedZero) ==
  /\ sphase = "new" /\ UNCHANGED <<proto, origins>>
  /\ Handshake(magicOK, lenNibble, serNibble, reservedZero)
  /\ sphase' = IF phase' = "open" THEN "up" ELSE "closed"
  /\ sobs' = NoSObs

\* a frame above the limit the listener announced ends the connection (nothing else is said)
RsTooBig ==
  /\ sphase \in {"up", "joined"} /\ phase = "open" /\ UNCHANGED <<proto, origins, ser, sendLimit, recvLimit, cfgLimit>>
  /\ phase' = "closed" /\ sphase' = "closed"
  /\ wobs' = [NoObs EXCEPT !.closed = TRUE]
  /\ sobs' = [NoSObs EXCEPT !.closed = TRUE]

\* The nexus client as the connecting side (client.ConnectNet): the URL scheme selects the transport
\* (ws, http = websocket; tcp, tcp4 = rawsocket; anything else is refused), the configured
\* serialization selects subprotocol / serializer.  It joins iff the scheme's transport is the one
\* the listener speaks; then it subscribes, publishes to itself (exclude_me = false, acknowledged)
\* and must receive its own event.  listener = "ws" | "rs"
SchemeKind(scheme) == CASE scheme \in {"ws", "http"} -> "ws" [] scheme \in {"tcp", "tcp4"} -> "rs" [] OTHER -> ""
ClientConnect(listener, scheme, serialization) ==
  /\ sphase = "new" /\ UNCHANGED <<wvars, origins>>
  \* (a rawsocket listener that accepts less than the client's HELLO is another story: that HELLO is
  \* dropped as a whole by the client's own peer - Wire!Send - and the join times out)
  /\ listener = "rs" => (cfgLimit = 0 \/ cfgLimit >= 4096)
  /\ IF SchemeKind(scheme) = listener
     THEN \* (a whole little session: afterwards the client has left again)
          /\ sphase' = "closed" /\ proto' = IF listener = "ws" THEN "wamp.2." \o serialization ELSE ""
          /\ sobs' = [NoSObs EXCEPT !.reply = "EVENT"]
     ELSE /\ sphase' = "closed" /\ proto' = ""
          /\ sobs' = [NoSObs EXCEPT !.reply = "ERROR", !.closed = TRUE]

SInit(kind, lim, org) ==
  /\ sphase = "new" /\ proto = "" /\ origins = org /\ sobs = NoSObs
  /\ WInitWith(lim)
SResetTo(lim, org) ==
  /\ sphase' = "new" /\ proto' = "" /\ origins' = org /\ sobs' = NoSObs
  /\ WResetTo(lim)

\* --------------------------------------------------------------------------
\* leg 1: every upgrade request over a small universe
Offers == {<<>>, <<"wamp.2.json">>, <<"wamp.2.cbor", "wamp.2.json">>, <<"wamp.2.msgpack", "wamp.2.cbor">>, <<"bogus">>,
           <<"bogus", "wamp.2.cbor">>, <<"wamp.2.cbor", "wamp.2.msgpack", "wamp.2.json">>}
MCSNext ==
  \/ \E o \in Offers, g \in {"", "same", "good", "glob", "evil"} : Upgrade(o, g)
  \/ Hello \/ Pub \/ SGet
  \/ \E m \in BOOLEAN, ln \in {0, 15}, sn \in {0, 1, 2, 3, 4}, rz \in BOOLEAN : RsHandshake(m, ln, sn, rz)
  \/ RsTooBig
  \/ \E k \in {"ws", "rs"}, sc \in {"ws", "http", "tcp", "tcp4", "bogus"}, sr \in {"json", "msgpack", "cbor"} : ClientConnect(k, sc, sr)
MCSInit == \E lim \in {0, 600}, org \in {"none", "list", "star"} : SInit("", lim, org)
MCSSpec == MCSInit /\ [][MCSNext]_svars

\* the selected subprotocol is one the client offered and the server knows
S_Offered   == [][\A o \in Offers, g \in {"", "same", "good", "glob", "evil"} :
                     Upgrade(o, g) => (proto' = "" \/ (proto' \in Rng(o) /\ proto' \in Rng(ServerOrder)))]_svars
\* a foreign origin gets in only where it was allowed
S_Origin    == [][\A o \in Offers : Upgrade(o, "evil") /\ origins # "star" => sphase' = "closed" /\ sobs'.status = 403]_svars
\* JSON is spoken in text frames, the binary serializers in binary frames
S_FrameType == sobs.reply \in {"WELCOME", "PUBLISHED", "RESULT"} /\ proto # "" => sobs.frame = (IF SerOf(proto) = "json" THEN "text" ELSE "binary")
\* a closed connection stays closed
S_Closed    == [][sphase = "closed" => sphase' = "closed"]_svars
=============================================================================
