-------------------------------- MODULE MCWire --------------------------------
(***************************************************************************)
(* Leg 1 of C15: every sequence of up to MaxSteps wire events over small     *)
(* parameter sets, with the transport properties stated over a history of   *)
(* what was sent and what arrived (not over the actions of Wire).           *)
(***************************************************************************)
EXTENDS Wire

CONSTANT MaxSteps
VARIABLES steps,
          sentC,      \* well-formed messages the client sent within the limit, in order (ids)
          gotR,       \* messages delivered to the router, in order
          sentR,      \* messages the router handed to the peer: [id, n]
          gotC,       \* message frames the client read, in order
          clientNib,  \* the length nibble the other end announced
          wasClosed   \* the connection has ended

mvars == <<wvars, steps, sentC, gotR, sentR, gotC, clientNib, wasClosed>>

Ids(q) == [i \in DOMAIN q |-> q[i].id]
MsgFrames(q) == SelectSeq(q, LAMBDA f : f.type = 0)

Record(sc, sr) ==
  /\ steps' = steps + 1
  /\ sentC' = sentC \o sc /\ sentR' = sentR \o sr
  /\ gotR' = gotR \o wobs'.delivered
  /\ gotC' = gotC \o Ids(MsgFrames(wobs'.frames))
  /\ wasClosed' = (wasClosed \/ wobs'.closed)

MCNext ==
  /\ steps < MaxSteps
  /\ \/ \E m \in BOOLEAN, ln \in {0, 1, 15}, sn \in {0, 1, 2, 4}, rz \in BOOLEAN :
          Handshake(m, ln, sn, rz) /\ clientNib' = ln /\ Record(<<>>, <<>>)
     \/ \E m \in BOOLEAN, hi \in {0, 1, 15}, lo \in {0, 1, 2}, hang \in BOOLEAN :
          ServerReply(m, hi, lo, hang) /\ clientNib' = hi /\ Record(<<>>, <<>>)
     \/ \E t \in {0, 1, 2, 3, 7}, len \in {0, 40, recvLimit, recvLimit + 1}, b \in {"msg", "junk", "short"} :
          /\ Frame(t, len, b, steps + 1) /\ UNCHANGED clientNib
          /\ Record(IF t = 0 /\ b = "msg" /\ len <= recvLimit THEN <<steps + 1>> ELSE <<>>, <<>>)
     \/ \E n \in {60, sendLimit, sendLimit + 1} :
          Send(n, steps + 1) /\ UNCHANGED clientNib /\ Record(<<>>, <<[id |-> steps + 1, n |-> n]>>)
     \/ Eof /\ UNCHANGED clientNib /\ Record(<<>>, <<>>)

MCInit == /\ \E limit \in {0, 600}, connects \in BOOLEAN : IF connects THEN WInitClient(limit, 1) ELSE WInitWith(limit)
          /\ steps = 0 /\ sentC = <<>> /\ gotR = <<>> /\ sentR = <<>> /\ gotC = <<>> /\ clientNib = 0 /\ wasClosed = FALSE
MCSpec == MCInit /\ [][MCNext]_mvars

IsPrefixOf(a, b) == Len(a) <= Len(b) /\ \A i \in DOMAIN a : a[i] = b[i]

\* client -> router: what is delivered is exactly what was sent well-formed and within the limit, in order
C15_Inbound  == IsPrefixOf(gotR, sentC) /\ (~wasClosed => gotR = sentC)
\* router -> client: exactly the messages within the client's limit, whole and in order
Fits(m)      == m.n <= LimitOf(clientNib) /\ m.n <= MaxFrame
C15_Outbound == gotC = Ids(SelectSeq(sentR, Fits))
\* the handshake agrees on what each side announced
C15_Limits   == phase = "open" => /\ sendLimit = LimitOf(clientNib)
                                  /\ (cfgLimit > 0 => recvLimit >= cfgLimit /\ recvLimit < 2 * cfgLimit)
\* an ended connection stays ended
C15_Ended    == wasClosed => phase = "closed"
=============================================================================
