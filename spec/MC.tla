---------------------------------- MODULE MC ----------------------------------
(***************************************************************************)
(* Leg 1: exhaustive model checking of Core over small domains.  The       *)
(* properties are stated over *monitors* that are fed only by what the     *)
(* sessions observe (`out'), independently of the routing tables, so that  *)
(* TLC checks the tables and actions of Core against the client-visible    *)
(* statement of each property.                                             *)
(***************************************************************************)
EXTENDS Core

CONSTANTS MCKinds,     \* input kinds explored
          MaxSteps,    \* bound on the number of inputs
          NSess,       \* number of session names used
          MCMode       \* "" | "hist" (realm with event history) | "authz" (realm with an authorizer)

VARIABLES last,        \* the last input
          steps,
          held,        \* client view: session -> set of <<subscription id, key>> it holds
          regd,        \* client view: session -> set of <<registration id, key>> it holds
          issued,      \* calls issued: set of <<caller, request>>
          replies,     \* call -> "none" | "prog" | "final" | "bad"
          stray,       \* a reply for a call never issued was seen
          intr,        \* <<callee, invocation>> -> number of cancel INTERRUPTs received
          invseen,     \* callee -> invocation ids received
          dupinv,      \* an invocation id was used twice towards one callee
          callinfo,    \* call -> [callee, inv]  (from the INVOCATION observed)
          publog,      \* every accepted publication: [topic, restricted, pub]
          live,        \* observer -> session ids announced by on_join and not yet by on_leave
          badmeta      \* an on_join for a session already announced / on_create for an id already announced

mvars == <<vars, last, steps, held, regd, issued, replies, stray, intr, invseen, dupinv, callinfo, publog, live, badmeta>>

Names == <<"s1", "s2", "s3">>
SN    == {Names[i] : i \in 1..NSess}

U_a == <<"a">>   U_ab == <<"a",".","b">>   U_adot == <<"a",".">>   U_dotb == <<".","b">>
U_bad == <<"a",".",".","b">>
Targets == {U_a, U_ab}
Keys    == {<<U_ab, "exact">>, <<U_a, "prefix">>, <<U_adot, "wildcard">>, <<U_bad, "exact">>}

O0 == [ack |-> FALSE, xme |-> "", xl |-> <<>>, el |-> <<>>, hx |-> FALSE, he |-> FALSE,
       xa |-> <<>>, ea |-> <<>>, dme |-> FALSE, match |-> "", invoke |-> "", dcl |-> FALSE,
       fwd |-> FALSE, tmo |-> 0, rprog |-> FALSE, mode |-> "", prog |-> FALSE, err |-> "", ppt |-> ""]
F0 == [limit |-> 0, reverse |-> FALSE, from_t |-> 0, after_t |-> 0, before_t |-> 0, until_t |-> 0,
       from_p |-> 0, after_p |-> 0, before_p |-> 0, until_p |-> 0, topic |-> <<>>]
In0 == [op |-> "", s |-> "", req |-> 0, uri |-> <<>>, id |-> 0, o |-> O0, uri2 |-> <<>>, args |-> <<>>,
        how |-> "", tag |-> "", f |-> F0]
U_wampdot == <<"w","a","m","p",".">>

\* ("ppt" \in MCKinds: payload passthru mode - s1 announced it for every role, s2 as a callee only)
\* ("pci" \in MCKinds: progressive call invocations - s1 announced them as caller and callee, s2 as a caller only)
FeatOf(s) == IF s = "s1" THEN <<"callee:call_canceling", "callee:progressive_call_results", "subscriber:publisher_identification">>
                              \o (IF "ppt" \in MCKinds THEN <<"publisher:payload_passthru_mode", "caller:payload_passthru_mode", "callee:payload_passthru_mode">> ELSE <<>>)
                              \o (IF "pci" \in MCKinds THEN <<"callee:progressive_call_invocations", "caller:progressive_call_invocations">> ELSE <<>>)
             ELSE IF s = "s2" THEN <<"callee:call_timeout">> \o (IF "ppt" \in MCKinds THEN <<"callee:payload_passthru_mode">> ELSE <<>>)
                                   \o (IF "pci" \in MCKinds THEN <<"caller:progressive_call_invocations">> ELSE <<>>)
             ELSE <<>>
PptSet == IF "ppt" \in MCKinds THEN {"", "mqtt"} ELSE {""}
JoinOf(s) == [authid |-> IF s = "s3" THEN "alice" ELSE "u1", color |-> IF s = "s1" THEN "red" ELSE "",
              feats |-> FeatOf(s), local |-> s # "s3", q |-> 0, tr |-> ""]

NextId(S) == IF S = {} THEN 1 ELSE (CHOOSE n \in S : \A m \in S : m <= n) + 1
J == Joined(Cur)
N == steps + 1

\* --------------------------------------------------------------------------
\* monitors, fed by the observations of the step
Mon(old, final) == IF old \in {"final", "bad"} THEN "bad" ELSE IF final THEN "final" ELSE "prog"

RECURSIVE FoldReplies(_, _, _)
FoldReplies(rep, s, q) ==
  IF q = <<>> THEN rep
  ELSE LET m == Head(q)
           isR == m.k = "RESULT" \/ (m.k = "ERROR" /\ m.a = T_CALL)
           c   == <<s, m.req>>
       IN IF isR /\ c \in DOMAIN rep
          THEN FoldReplies([rep EXCEPT ![c] = Mon(@, ~(m.k = "RESULT" /\ <<"progress", "true">> \in m.d))], s, Tail(q))
          ELSE FoldReplies(rep, s, Tail(q))

RECURSIVE FoldAll(_, _, _)
FoldAll(rep, ss, o) == IF ss = {} THEN rep
                       ELSE LET s == CHOOSE x \in ss : TRUE IN FoldAll(FoldReplies(rep, s, o[s]), ss \ {s}, o)

All(o)  == UNION {{<<s, o[s][j]>> : j \in DOMAIN o[s]} : s \in DOMAIN o}

Observe(i) ==
  LET o    == out'
      all  == All(o)
      iss  == IF i.op = "call" THEN issued \cup {<<i.s, i.req>>} ELSE issued
      rep0 == [c \in iss |-> IF c \in DOMAIN replies THEN replies[c] ELSE "none"]
      isReply(m) == m.k = "RESULT" \/ (m.k = "ERROR" /\ m.a = T_CALL)
      invs == {sm \in all : sm[2].k = "INVOCATION"}
      cint == {sm \in all : sm[2].k = "INTERRUPT" /\ \E p \in sm[2].d : p[1] = "reason"}
  IN /\ last' = i /\ steps' = steps + 1
     /\ issued' = iss
     /\ replies' = FoldAll(rep0, DOMAIN o, o)
     /\ stray' = (stray \/ \E sm \in all : isReply(sm[2]) /\ <<sm[1], sm[2].req>> \notin iss)
     /\ held' = [s \in DOMAIN o |->
                   LET h0 == IF s \in DOMAIN held THEN held[s] ELSE {} IN
                   IF s # i.s THEN h0
                   ELSE IF i.op = "subscribe" /\ \E j \in DOMAIN o[s] : o[s][j].k = "SUBSCRIBED"
                        THEN h0 \cup {<<(CHOOSE m \in Rng(o[s]) : m.k = "SUBSCRIBED").a, <<i.uri, NormMatch(i.o.match)>>>>}
                   ELSE IF i.op = "unsubscribe" /\ \E j \in DOMAIN o[s] : o[s][j].k = "UNSUBSCRIBED"
                        THEN {p \in h0 : p[1] # i.id}
                   ELSE IF i.op = "leave" THEN {} ELSE h0]
     /\ regd' = [s \in DOMAIN o |->
                   LET h0 == IF s \in DOMAIN regd THEN regd[s] ELSE {} IN
                   IF s # i.s THEN h0
                   ELSE IF i.op = "register" /\ \E j \in DOMAIN o[s] : o[s][j].k = "REGISTERED"
                        THEN h0 \cup {<<(CHOOSE m \in Rng(o[s]) : m.k = "REGISTERED").a, <<i.uri, NormMatch(i.o.match)>>>>}
                   ELSE IF i.op = "unregister" /\ \E j \in DOMAIN o[s] : o[s][j].k = "UNREGISTERED"
                        THEN {p \in h0 : p[1] # i.id}
                   ELSE IF i.op = "leave" THEN {} ELSE h0]
     /\ invseen' = [s \in DOMAIN o |-> (IF s \in DOMAIN invseen THEN invseen[s] ELSE {})
                                        \cup {sm[2].req : sm \in {x \in invs : x[1] = s}}]
     \* (a further chunk of a progressive call travels under the call's invocation id: C03_Chunks)
     /\ dupinv' = (dupinv \/ (i.how # "chunk" /\ \E sm \in invs : sm[1] \in DOMAIN invseen /\ sm[2].req \in invseen[sm[1]]))
     /\ intr' = [k \in DOMAIN intr \cup {<<sm[1], sm[2].req>> : sm \in cint} |->
                   (IF k \in DOMAIN intr THEN intr[k] ELSE 0) + Cardinality({sm \in cint : <<sm[1], sm[2].req>> = k})]
     /\ LET joins(o2)  == {sm[2].x : sm \in {z \in all : z[1] = o2 /\ z[2].k = "EVENT" /\ z[2].v = U_session_on_join}}
            leaves(o2) == {sm[2].x : sm \in {z \in all : z[1] = o2 /\ z[2].k = "EVENT" /\ z[2].v = U_session_on_leave}}
            old(o2)    == IF o2 \in DOMAIN live THEN live[o2] ELSE {}
        IN /\ live' = [o2 \in DOMAIN o |-> (old(o2) \cup joins(o2)) \ leaves(o2)]
           /\ badmeta' = (badmeta \/ \E o2 \in DOMAIN o : joins(o2) \cap old(o2) # {})
     /\ publog' = IF i.op = "publish" /\ ValidURI(cfg.strict, "exact", i.uri) /\ ~(i.o.dme /\ ~cfg.disclose)
                  THEN Append(publog, [topic |-> i.uri, restricted |-> i.o.hx \/ i.o.he, pub |-> NextId(used.pub)])
                  ELSE publog
     /\ callinfo' = IF i.op = "call" /\ invs # {}
                    THEN LET sm == CHOOSE x \in invs : TRUE IN
                         (<<i.s, i.req>> :> [callee |-> sm[1], inv |-> sm[2].req, reg |-> sm[2].a]) @@ callinfo
                    ELSE callinfo

Do(i, S) ==
  /\ LET dec == IF MsgType(i) = "" THEN "allow" ELSE Decision(Cur, i.s, MsgType(i)) IN
     IF dec \in {"allow", "rewrite"} THEN Commit(S)
     ELSE Commit(RefuseFx(Cur, i.s, TypeCode(MsgType(i)), IF i.op = "yield" THEN i.id ELSE i.req, dec, SilentRefusal(i)))
  /\ Observe(i)

\* --------------------------------------------------------------------------
\* inputs over small domains
PubOptSet == {O0, [O0 EXCEPT !.ack = TRUE], [O0 EXCEPT !.xme = "f"], [O0 EXCEPT !.xme = "f", !.ack = TRUE]}
             \cup {[O0 EXCEPT !.hx = TRUE, !.xl = <<sess[s].id>>] : s \in DOMAIN sess}
             \cup {[O0 EXCEPT !.he = TRUE, !.el = <<sess[s].id>>, !.xme = "f"] : s \in DOMAIN sess}
             \cup {[O0 EXCEPT !.ea = <<[a |-> "color", v |-> <<"red">>]>>], [O0 EXCEPT !.xa = <<[a |-> "authrole", v |-> <<"trusted">>]>>]}
             \cup (IF "disc" \in MCKinds THEN {[O0 EXCEPT !.dme = TRUE, !.xme = "f"], [O0 EXCEPT !.dme = TRUE, !.ack = TRUE]} ELSE {})
             \cup (IF "ppt" \in MCKinds THEN {[O0 EXCEPT !.ppt = "mqtt", !.xme = "f"], [O0 EXCEPT !.ppt = "mqtt", !.ack = TRUE]} ELSE {})

MCNext ==
  /\ steps < MaxSteps
  /\ \/ /\ "join" \in MCKinds
        /\ \E s \in SN : s \notin DOMAIN sess
             /\ Do([In0 EXCEPT !.op = "join", !.s = s], JoinFx(Cur, s, JoinOf(s), NextId(used.sid)))
     \/ /\ "sub" \in MCKinds
        /\ \E s \in J, k \in Keys :
             Do([In0 EXCEPT !.op = "subscribe", !.s = s, !.req = N, !.uri = k[1], !.o = [O0 EXCEPT !.match = k[2]]],
                SubscribeFx(Cur, s, N, k[1], k[2], NextId(used.sub)))
     \/ /\ "unsub" \in MCKinds
        /\ \E s \in J, id \in used.sub \cup {99} :
             Do([In0 EXCEPT !.op = "unsubscribe", !.s = s, !.req = N, !.id = id], UnsubscribeFx(Cur, s, N, id))
     \/ /\ "pub" \in MCKinds
        /\ \E s \in J, u \in Targets \cup {U_bad}, o \in PubOptSet :
             Do([In0 EXCEPT !.op = "publish", !.s = s, !.req = N, !.uri = u, !.o = o],
                PublishReqFx(Cur, s, N, u, o, NextId(used.pub), "p"))
     \/ /\ "reg" \in MCKinds
        /\ \E s \in J, k \in Keys, pol \in {"", "roundrobin", "first"}, dcl \in (IF "disc" \in MCKinds THEN BOOLEAN ELSE {FALSE}) :
             LET o == [O0 EXCEPT !.match = k[2], !.invoke = pol, !.dcl = dcl] IN
             Do([In0 EXCEPT !.op = "register", !.s = s, !.req = N, !.uri = k[1], !.o = o],
                RegisterFx(Cur, s, N, k[1], o, NextId(used.reg)))
     \/ /\ "unreg" \in MCKinds
        /\ \E s \in J, id \in used.reg \cup {99} :
             Do([In0 EXCEPT !.op = "unregister", !.s = s, !.req = N, !.id = id], UnregisterFx(Cur, s, N, id))
     \/ /\ "call" \in MCKinds
        /\ \E s \in J, u \in Targets, tmo \in {0, 2}, rp \in BOOLEAN, dme \in (IF "disc" \in MCKinds THEN BOOLEAN ELSE {FALSE}), ppt \in PptSet :
           \E more \in (IF "pci" \in MCKinds THEN BOOLEAN ELSE {FALSE}) :
             LET o == [O0 EXCEPT !.tmo = tmo, !.rprog = rp, !.dme = dme, !.ppt = ppt, !.prog = more]
                 i == [In0 EXCEPT !.op = "call", !.s = s, !.req = N, !.uri = u, !.o = o] IN
             IF BestRegs(Cur, u) = {} THEN Do(i, CallFx(Cur, s, N, u, o, "p", <<>>, "", 0))
             ELSE IF more /\ ~Has(Cur, s, "caller:progressive_call_invocations")
             THEN Do(i, LeaveFx(Cur, s, "violation", ""))      \* a feature it did not announce: the session ends
             ELSE \E k \in BestRegs(Cur, u) : \E callee \in Eligible(regs[k]) :
                    Do(i, CallFx(Cur, s, N, u, o, "p", k, callee, NextId(used.inv[callee])))
     \* a further chunk of a progressive call in progress (it may name any procedure)
     \/ /\ "pci" \in MCKinds
        /\ \E c \in issued, more \in BOOLEAN, u \in Targets :
             /\ c[1] \in J /\ InProgress(Cur, c)
             /\ LET o == [O0 EXCEPT !.prog = more]
                    i == [In0 EXCEPT !.op = "call", !.how = "chunk", !.s = c[1], !.req = c[2], !.uri = u, !.o = o] IN
                Do(i, ChunkFx(Cur, c[1], c[2], o, "p"))
     \/ /\ "cancel" \in MCKinds
        /\ \E s \in J, c \in issued, mode \in {"", "skip", "kill", "bogus"} :
             Do([In0 EXCEPT !.op = "cancel", !.s = s, !.req = c[2], !.o = [O0 EXCEPT !.mode = mode]],
                CancelFx(Cur, s, c[2], mode))
     \/ /\ "yield" \in MCKinds
        /\ \E s \in J : \E inv \in used.inv[s] \cup {99}, prog \in BOOLEAN, ppt \in PptSet :
             Do([In0 EXCEPT !.op = "yield", !.s = s, !.id = inv, !.o = [O0 EXCEPT !.prog = prog, !.ppt = ppt]],
                YieldFx(Cur, s, inv, prog, ppt, "r"))
     \/ /\ "inverr" \in MCKinds
        /\ \E s \in J : \E inv \in used.inv[s] :
             Do([In0 EXCEPT !.op = "inverror", !.s = s, !.id = inv], InvErrorFx(Cur, s, inv, "app.error", "e"))
     \/ /\ "leave" \in MCKinds
        /\ \E s \in J, how \in {"goodbye", "lost"} :
             Do([In0 EXCEPT !.op = "leave", !.s = s, !.o = [O0 EXCEPT !.mode = how]], LeaveFx(Cur, s, how, ""))
     \/ /\ "wsub" \in MCKinds
        /\ \E s \in J :
             Do([In0 EXCEPT !.op = "subscribe", !.s = s, !.req = N, !.uri = U_wampdot, !.o = [O0 EXCEPT !.match = "prefix"]],
                SubscribeFx(Cur, s, N, U_wampdot, "prefix", NextId(used.sub)))
     \/ /\ "kill" \in MCKinds
        /\ \E s \in J, v \in J :
             LET i == [In0 EXCEPT !.op = "metacall", !.s = s, !.req = N, !.uri = U_session_kill, !.id = sess[v].id] IN
             Do(i, MetaCallFx(Cur, s, N, i, <<>>, 0))
     \/ /\ "killall" \in MCKinds
        /\ \E s \in J :
             LET i == [In0 EXCEPT !.op = "metacall", !.s = s, !.req = N, !.uri = U_session_kill_all] IN
             Do(i, MetaCallFx(Cur, s, N, i, <<>>, 0))
     \/ /\ "tst" \in MCKinds
        /\ \E s \in J, u \in Targets :
             LET i == [In0 EXCEPT !.op = "metacall", !.s = s, !.req = N, !.uri = U_session_add_testament, !.uri2 = u, !.tag = "T"] IN
             Do(i, MetaCallFx(Cur, s, N, i, <<>>, 0))
     \/ /\ "adv" \in MCKinds
        /\ \E ms \in {1, 2} : Do([In0 EXCEPT !.op = "advance", !.id = ms], AdvanceFx(Cur, ms))

MCInit == /\ \E disc \in (IF "disc" \in MCKinds THEN BOOLEAN ELSE {TRUE}) :
             InitWith([InitCfg EXCEPT !.users = <<[id |-> "alice", role |-> "user"]>>, !.disclose = disc,
                                       !.authz = IF MCMode = "authz"
                                                 THEN <<[mt |-> "PUBLISH", who |-> "remote", dec |-> "deny"],
                                                        [mt |-> "SUBSCRIBE", who |-> "trusted", dec |-> "fail"],
                                                        [mt |-> "CALL", who |-> "remote", dec |-> "deny"],
                                                        [mt |-> "REGISTER", who |-> "user", dec |-> "fail"],
                                                        [mt |-> "YIELD", who |-> "any", dec |-> "deny"]>> ELSE <<>>,
                                       !.lauthz = MCMode = "authz",
                                       !.hcfg = IF MCMode = "hist" THEN <<[u |-> U_a, m |-> "prefix", n |-> 2], [u |-> U_ab, m |-> "", n |-> 1]>>
                                                ELSE <<>>])
          /\ publog = <<>>
          /\ last = In0 /\ steps = 0 /\ held = <<>> /\ regd = <<>> /\ issued = {} /\ replies = <<>>
          /\ stray = FALSE /\ intr = <<>> /\ invseen = <<>> /\ dupinv = FALSE /\ callinfo = <<>>
          /\ live = <<>> /\ badmeta = FALSE
MCSpec == MCInit /\ [][MCNext]_mvars

\* ==========================================================================
\* properties
\* --- structural sanity of the tables
TablesOK ==
  /\ \A k1, k2 \in DOMAIN subs : subs[k1].id = subs[k2].id => k1 = k2
  /\ \A k1, k2 \in DOMAIN regs : regs[k1].id = regs[k2].id => k1 = k2
  /\ \A k \in DOMAIN subs : subs[k].members \subseteq J /\ (subs[k].members # {} \/ k \in DOMAIN hist)
  /\ \A k \in DOMAIN regs : Rng(regs[k].callees) \subseteq J /\ regs[k].callees # <<>>

\* --- C01: the EVENTs of a publication are exactly those the client-side view
\* of who holds which subscription demands (held is built from SUBSCRIBED /
\* UNSUBSCRIBED replies only)
EventsTo(s)  == {m \in Rng(out[s]) : m.k = "EVENT" /\ ~IsWampURI(m.v)}
C01_Delivery ==
  last.op = "publish" =>
    LET valid == ValidURI(cfg.strict, "exact", last.uri) /\ ~(last.o.dme /\ ~cfg.disclose)
        want(s) == IF ~valid \/ s \notin J THEN {}
                   ELSE {p \in held[s] : /\ MatchKey(p[2], last.uri)
                                         /\ ~(s = last.s /\ last.o.xme # "f")
                                         /\ Allowed(Cur, s, last.o)}
    IN \A s \in DOMAIN out :
         /\ {m.a : m \in EventsTo(s)} = {p[1] : p \in want(s)}
         /\ Cardinality(EventsTo(s)) = Cardinality(want(s))            \* once per subscription
         /\ \A m \in EventsTo(s) :
              /\ m.p = "p"
              /\ \A p \in want(s) : p[1] = m.a => m.u = (IF p[2][2] = "exact" THEN <<>> ELSE last.uri)
         /\ \A m1, m2 \in UNION {EventsTo(x) : x \in DOMAIN out} : m1.b = m2.b
C01_NoEventsOtherwise ==
  last.op # "publish" => \A s \in DOMAIN out : EventsTo(s) = {}
\* subscription ids are stable per (topic, policy): two holders of one key see one id, one id names one key
C01_StableIds ==
  \A s1, s2 \in DOMAIN held : \A p1 \in held[s1], p2 \in held[s2] : (p1[1] = p2[1]) <=> (p1[2] = p2[2])
\* the tables agree with the client view
C01_ViewAgrees ==
  \A s \in DOMAIN held : s \in J => held[s] = {<<subs[k].id, k>> : k \in {kk \in DOMAIN subs : s \in subs[kk].members}}

\* --- C02
C02_AtMostOneFinal == \A c \in DOMAIN replies : replies[c] # "bad"
C02_NoStray        == ~stray
C02_Owed           == \A c \in issued : replies[c] = "final" \/ c \in DOMAIN calls \/ c[1] \notin J
C02_NoOrphan       == \A c \in DOMAIN calls : c[1] \in J /\ calls[c].callee \in J /\ replies[c] # "final"
C02_NoLateTimer    == \A c \in DOMAIN calls : calls[c].deadline = 0 \/ calls[c].deadline > now

\* --- C03
C03_FreshInvocationIds == ~dupinv
C03_RegView ==
  \A s \in DOMAIN regd : s \in J => regd[s] = {<<regs[k].id, k>> : k \in {kk \in DOMAIN regs : s \in Rng(regs[kk].callees)}}
\* the INVOCATION of a call went to a session that (by its own REGISTERED replies) holds the best match
BestOfView(u) ==
  LET all == UNION {regd[s] : s \in DOMAIN regd \cap J}
      ex  == {p \in all : p[2][2] = "exact" /\ p[2][1] = u}
      px  == {p \in all : p[2][2] = "prefix" /\ PrefixMatch(u, p[2][1])}
      wc  == {p \in all : p[2][2] = "wildcard" /\ WildcardMatch(u, p[2][1])}
  IN IF ex # {} THEN ex
     ELSE IF px # {} THEN {p \in px : \A q \in px : Len(q[2][1]) <= Len(p[2][1])} ELSE wc
\* all chunks of one progressive call go to the same callee under the same invocation id and registration
C03_Chunks ==
  last.op = "call" /\ last.how = "chunk" =>
    LET invs == {sm \in All(out) : sm[2].k = "INVOCATION"}
        c    == <<last.s, last.req>> IN
    /\ Cardinality(invs) = 1
    /\ \A sm \in invs : c \in DOMAIN callinfo /\ sm[1] = callinfo[c].callee /\ sm[2].req = callinfo[c].inv /\ sm[2].a = callinfo[c].reg
C03_Routing ==
  last.op = "call" /\ last.how # "chunk" =>
    LET invs == {sm \in All(out) : sm[2].k = "INVOCATION"} IN
    /\ Cardinality(invs) <= 1
    /\ \A sm \in invs : \E p \in BestOfView(last.uri) : p[1] = sm[2].a /\ p \in regd[sm[1]]
    /\ (invs = {} /\ BestOfView(last.uri) # {}) =>
          \E m \in Rng(out[last.s]) : m.k = "ERROR" /\ m.req = last.req
C03_NoInvocationOtherwise ==
  last.op # "call" => \A sm \in All(out) : sm[2].k # "INVOCATION"

\* --- C13
C13_AtMostOneInterrupt == \A k \in DOMAIN intr : intr[k] <= 1
C13_Modes ==
  last.op = "cancel" =>
    LET c == <<last.s, last.req>>
        mode == IF last.o.mode = "" THEN "killnowait" ELSE last.o.mode
        intrs == {sm \in All(out) : sm[2].k = "INTERRUPT"}
        errs  == {m \in Rng(out[last.s]) : m.k = "ERROR"}
    IN /\ mode = "bogus" => errs = {[ErrorMsg(T_CANCEL, last.req, ErrInvalidArgument, Cur) EXCEPT !.t = now]} /\ intrs = {}
       /\ mode = "skip" => intrs = {}
       /\ mode \in {"skip", "killnowait"} => \A m \in errs : m.a = T_CALL /\ m.e = ErrCanceled /\ m.req = last.req
       /\ (mode = "kill" /\ intrs # {}) => errs = {}
       /\ \A sm \in intrs : c \in DOMAIN callinfo /\ sm[1] = callinfo[c].callee /\ sm[2].req = callinfo[c].inv
                            /\ "callee:call_canceling" \in sess[sm[1]].feats
C13_TimeoutExact ==
  \A s \in DOMAIN out : \A m \in Rng(out[s]) : (m.k = "ERROR" /\ m.e = ErrTimeout) => last.op = "advance"

\* --- C18: an observer that holds a subscription to all wamp.* topics is told of
\* every join and leave exactly once: the sessions it believes attached are attached
HoldsWamp(o) == o \in J /\ <<U_wampdot, "prefix">> \in DOMAIN subs /\ o \in subs[<<U_wampdot, "prefix">>].members
C18_ObserverView ==
  /\ ~badmeta
  /\ \A o \in DOMAIN live : HoldsWamp(o) => live[o] \subseteq {sess[s].id : s \in J}
\* the victim of a kill is gone, the caller never is
C18_Kill ==
  (last.op = "metacall" /\ last.uri = U_session_kill) =>
     /\ last.s \in J
     /\ \A s \in DOMAIN sess : (sess[s].id = last.id /\ s # last.s) => s \notin J
\* testaments are published exactly once: never kept beyond the session
C18_Testaments == \A s \in DOMAIN tst : s \notin J => tst[s] = <<>>

\* --- C10 (action property): a refused message changes no table, reaches nobody
\* else, and is answered by at most one ERROR of its own type and id
RefusedNow == /\ MsgType(last') # "" /\ last'.s \in J
              /\ Decision(Cur, last'.s, MsgType(last')) \in {"deny", "fail"}
C10_Refusal ==
  [][RefusedNow =>
       /\ UNCHANGED <<sess, subs, regs, calls, hist, tst, used>>
       /\ \A s \in DOMAIN out' : s # last'.s => out'[s] = <<>>
       /\ LET mine == out'[last'.s] IN
            /\ Len(mine) <= 1
            /\ (last'.op = "publish" /\ ~last'.o.ack) => mine = <<>>
            /\ ~(last'.op = "publish" /\ ~last'.o.ack) =>
                  /\ Len(mine) = 1 /\ mine[1].k = "ERROR" /\ mine[1].a = TypeCode(MsgType(last'))
                  /\ mine[1].e \in {ErrNotAuthorized, ErrAuthzFailed}]_mvars

\* --- C12: identity is disclosed only when allowed and only to recipients entitled to it
C12_EventDisclosure ==
  \A s \in DOMAIN out : \A m \in Rng(out[s]) :
     (m.k = "EVENT" /\ m.d # {}) =>
        /\ last.op = "publish" /\ last.o.dme /\ cfg.disclose
        /\ "subscriber:publisher_identification" \in sess[s].feats
        /\ <<"publisher", ToString(sess[last.s].id)>> \in m.d
C12_CallerDisclosure ==
  \A s \in DOMAIN out : \A m \in Rng(out[s]) :
     (m.k = "INVOCATION" /\ \E p \in m.d : p[1] = "caller") =>
        /\ last.op = "call"
        /\ \/ \E k \in DOMAIN regs : regs[k].id = m.a /\ regs[k].disclose
           \/ (last.o.dme /\ cfg.disclose /\ "callee:caller_identification" \in sess[s].feats)
        /\ <<"caller", ToString(sess[last.s].id)>> \in m.d
C12_RefusedDisclosure ==
  (last.op = "publish" /\ last.o.dme /\ ~cfg.disclose /\ ValidURI(cfg.strict, "exact", last.uri)) =>
     \A s \in DOMAIN out : \A m \in Rng(out[s]) : m.k # "EVENT"

\* --- C20: what is retained for a history subscription is exactly the last N
\* unrestricted publications matching it, whoever was subscribed meanwhile
C20_Retention ==
  \A k \in DOMAIN hist :
    LET n    == cfg.hcfg[CHOOSE i \in DOMAIN cfg.hcfg : <<cfg.hcfg[i].u, NormMatch(cfg.hcfg[i].m)>> = k].n
        all  == SelectSeq(publog, LAMBDA p : MatchKey(k, p.topic) /\ ~p.restricted)
        want == IF Len(all) > n THEN SubSeq(all, Len(all) - n + 1, Len(all)) ELSE all
    IN /\ k \in DOMAIN subs
       /\ [j \in DOMAIN hist[k] |-> hist[k][j].pub] = [j \in DOMAIN want |-> want[j].pub]
       /\ \A j \in DOMAIN hist[k] : hist[k][j].topic = want[j].topic

\* --- C05
C05_NoTrace ==
  \A s \in DOMAIN sess : sess[s].st = "gone" =>
     /\ \A k \in DOMAIN subs : s \notin subs[k].members
     /\ \A k \in DOMAIN regs : s \notin Rng(regs[k].callees)
     /\ \A c \in DOMAIN calls : c[1] # s /\ calls[c].callee # s
     /\ tst[s] = <<>>
     /\ out[s] = <<>> \/ out[s][Len(out[s])].k = "CLOSED"      \* nothing after the step in which it ended
C05_IdleEmpty == (J = {}) => (DOMAIN subs = DOMAIN hist /\ DOMAIN regs = {} /\ DOMAIN calls = {})
=============================================================================
