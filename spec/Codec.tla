-------------------------------- MODULE Codec --------------------------------
(***************************************************************************)
(* C14: WAMP messages as lists.  The data model (null, booleans, integers   *)
(* up to 2^53 written symbolically, floats, strings, lists, dicts), the 24  *)
(* message shapes with their field kinds, the list form with trailing empty *)
(* payload fields omitted, and the acceptance rule for lists that are not   *)
(* messages.  TLC enumerates the vectors (Part = "gen": every vector is an  *)
(* initial state, printed as JSON); the harness (harness/codec_test.go)     *)
(* builds each message, serialises and deserialises it with the JSON,       *)
(* MessagePack and CBOR serializers of the current tree and logs what came  *)
(* back; TLC then evaluates the rule on every logged line (Part = "check"). *)
(***************************************************************************)
EXTENDS Integers, Sequences, FiniteSets, TLC, Json

CONSTANTS Part,      \* "gen" | "genbad" | "check"
          LogFile

VARIABLE v

\* --------------------------------------------------------------------------
\* values
\* one record shape for all values (s: the atom as a string, q: the elements of a container)
Null      == [t |-> "n", s |-> "", q |-> <<>>]
B(x)      == [t |-> "b", s |-> IF x THEN "true" ELSE "false", q |-> <<>>]
I(x)      == [t |-> "i", s |-> x, q |-> <<>>]     \* x: "0" "1" "-1" "300" "max" (2^53) "max-1"
F(x)      == [t |-> "f", s |-> x, q |-> <<>>]     \* "1.5"
S(x)      == [t |-> "s", s |-> x, q |-> <<>>]
L(q)      == [t |-> "l", s |-> "", q |-> q]
D(q)      == [t |-> "d", s |-> "", q |-> q]       \* sequence of [k, v], keys ascending

Atoms     == {Null, B(TRUE), B(FALSE), I("0"), I("1"), I("-1"), I("max"), I("max-1"), F("1.5"), S(""), S("a"), S("é中")}
SmallL    == {L(<<>>), L(<<I("1")>>), L(<<S("a"), Null>>)}
SmallD    == {D(<<>>), D(<<[k |-> "x", v |-> I("1")]>>), D(<<[k |-> "", v |-> Null], [k |-> "y", v |-> B(TRUE)]>>)}
\* deeply nested values (the data model does not bound nesting)
RECURSIVE DeepL(_)
DeepL(n) == IF n = 0 THEN I("1") ELSE L(<<DeepL(n - 1)>>)
RECURSIVE DeepM(_)
DeepM(n) == IF n = 0 THEN S("a") ELSE IF n % 2 = 0 THEN L(<<DeepM(n - 1), Null>>) ELSE D(<<[k |-> "k", v |-> DeepM(n - 1)]>>)
\* payload shapes: positional arguments and keyword arguments
ArgsSet   == {L(<<>>), L(<<I("max")>>), L(<<S("a"), I("-1"), F("1.5"), Null, B(FALSE)>>), L(<<L(<<>>), D(<<>>)>>),
              L(<<L(<<I("1"), L(<<S("é中")>>)>>), D(<<[k |-> "k", v |-> L(<<I("max-1")>>)]>>)>>), L(<<S("")>>),
              L(<<DeepL(24)>>), L(<<DeepM(33), DeepL(12)>>)}
KwSet     == {D(<<>>), D(<<[k |-> "a", v |-> I("300")]>>), D(<<[k |-> "", v |-> S("")], [k |-> "n", v |-> D(<<[k |-> "m", v |-> L(<<Null>>)]>>)]>>),
              D(<<[k |-> "f", v |-> F("1.5")], [k |-> "t", v |-> B(TRUE)]>>), D(<<[k |-> "deep", v |-> DeepM(40)]>>)}
DetailSet == {D(<<>>), D(<<[k |-> "match", v |-> S("prefix")]>>), D(<<[k |-> "roles", v |-> D(<<[k |-> "caller", v |-> D(<<>>)]>>)], [k |-> "x", v |-> I("1")]>>)}

\* --------------------------------------------------------------------------
\* the 24 message shapes: code |-> sequence of field kinds; "args" and "kwargs" are the optional trailing fields
Shape(code) ==
  CASE code = 1  -> <<"uri", "dict">>                                   \* HELLO
    [] code = 2  -> <<"id", "dict">>                                    \* WELCOME
    [] code = 3  -> <<"dict", "uri">>                                   \* ABORT
    [] code = 4  -> <<"str", "dict">>                                   \* CHALLENGE
    [] code = 5  -> <<"str", "dict">>                                   \* AUTHENTICATE
    [] code = 6  -> <<"dict", "uri">>                                   \* GOODBYE
    [] code = 8  -> <<"mtype", "id", "dict", "uri", "args", "kwargs">>  \* ERROR
    [] code = 16 -> <<"id", "dict", "uri", "args", "kwargs">>           \* PUBLISH
    [] code = 17 -> <<"id", "id">>                                      \* PUBLISHED
    [] code = 32 -> <<"id", "dict", "uri">>                             \* SUBSCRIBE
    [] code = 33 -> <<"id", "id">>                                      \* SUBSCRIBED
    [] code = 34 -> <<"id", "id">>                                      \* UNSUBSCRIBE
    [] code = 35 -> <<"id">>                                            \* UNSUBSCRIBED
    [] code = 36 -> <<"id", "id", "dict", "args", "kwargs">>            \* EVENT
    [] code = 48 -> <<"id", "dict", "uri", "args", "kwargs">>           \* CALL
    [] code = 49 -> <<"id", "dict">>                                    \* CANCEL
    [] code = 50 -> <<"id", "dict", "args", "kwargs">>                  \* RESULT
    [] code = 64 -> <<"id", "dict", "uri">>                             \* REGISTER
    [] code = 65 -> <<"id", "id">>                                      \* REGISTERED
    [] code = 66 -> <<"id", "id">>                                      \* UNREGISTER
    [] code = 67 -> <<"id">>                                            \* UNREGISTERED
    [] code = 68 -> <<"id", "id", "dict", "args", "kwargs">>            \* INVOCATION
    [] code = 69 -> <<"id", "dict">>                                    \* INTERRUPT
    [] code = 70 -> <<"id", "dict", "args", "kwargs">>                  \* YIELD
    [] OTHER     -> <<>>
Codes == {1, 2, 3, 4, 5, 6, 8, 16, 17, 32, 33, 34, 35, 36, 48, 49, 50, 64, 65, 66, 67, 68, 69, 70}

HasPayload(code) == Shape(code) # <<>> /\ Shape(code)[Len(Shape(code))] = "kwargs"

\* the number of elements of the list form: the code, the fixed fields, then positional and
\* keyword arguments - trailing empty ones omitted, but empty positional arguments kept
\* when keyword arguments follow
ListLen(code, fields) ==
  LET n == Len(Shape(code)) IN
  IF ~HasPayload(code) THEN 1 + n
  ELSE IF fields[n].q # <<>> THEN 1 + n
  ELSE IF fields[n - 1].q # <<>> THEN n
  ELSE n - 1

\* --------------------------------------------------------------------------
\* vectors: a well-formed message of every shape with every payload shape
FieldValues(kind) ==
  CASE kind = "id"     -> {I("1"), I("max")}
    [] kind = "uri"    -> {S("a.b")}
    [] kind = "str"    -> {S("ticket")}
    [] kind = "mtype"  -> {I("48")}
    [] kind = "dict"   -> DetailSet
    [] kind = "args"   -> ArgsSet
    [] OTHER           -> KwSet                         \* kwargs

RECURSIVE Tuples(_, _)
Tuples(shape, i) == IF i > Len(shape) THEN {<<>>}
                    ELSE {<<x>> \o rest : x \in FieldValues(shape[i]), rest \in Tuples(shape, i + 1)}

Good == UNION {{[code |-> c, fields |-> f] : f \in Tuples(Shape(c), 1)} : c \in Codes}

\* lists that are not messages: one field of an incompatible kind, an unknown code, too few elements
Incompatible(kind) ==
  CASE kind = "id"            -> {S("7"), L(<<>>), D(<<>>), B(TRUE), I("-1"), F("1.5")}
    \* (a message type is a plain integer: which integers name a type is not a matter of kinds)
    [] kind = "mtype"         -> {S("7"), L(<<>>), D(<<>>), B(TRUE), F("1.5")}
    [] kind \in {"uri", "str"}  -> {I("65"), L(<<S("a")>>), D(<<>>), B(TRUE), F("1.5")}
    [] kind = "dict"            -> {I("1"), S("a"), L(<<>>), B(FALSE)}
    [] OTHER                    -> IF kind = "args" THEN {I("1"), S("a"), D(<<>>), B(TRUE)} ELSE {I("1"), S("a"), L(<<I("1")>>), B(TRUE)}
Plain(kind) == CHOOSE x \in FieldValues(kind) : (kind \in {"args", "kwargs", "dict"} => x.q # <<>>)
AllBad == UNION {Incompatible(k) : k \in {"id", "uri", "str", "dict", "args", "kwargs", "mtype"}}
BadAt(c, p) == {[code |-> c, pos |-> p,
                 fields |-> [i \in 1..Len(Shape(c)) |-> IF i = p THEN b ELSE Plain(Shape(c)[i])]] : b \in Incompatible(Shape(c)[p])}
BadField == UNION {UNION {BadAt(c, p) : p \in 1..Len(Shape(c))} : c \in Codes}

\* ... an unknown message code in front of fields that would make a message under the code's low
\* octet (257 = 256 + HELLO, 304 = 256 + CALL), codes that name nothing, and things that are not lists
\* of that form at all (-100: a dict, -101: a string, -102: the empty list, -103: a list starting with a string)
PlainFields(c) == [i \in 1..Len(Shape(c)) |-> Plain(Shape(c)[i])]
BadCode == {[code |-> 257, pos |-> 0, fields |-> PlainFields(1)], [code |-> 304, pos |-> 0, fields |-> PlainFields(48)],
            [code |-> 0, pos |-> 0, fields |-> PlainFields(32)], [code |-> 7, pos |-> 0, fields |-> PlainFields(6)],
            [code |-> 9, pos |-> 0, fields |-> PlainFields(8)], [code |-> 71, pos |-> 0, fields |-> PlainFields(70)],
            [code |-> 99, pos |-> 0, fields |-> PlainFields(2)], [code |-> -1, pos |-> 0, fields |-> PlainFields(1)]}
           \cup {[code |-> c, pos |-> 0, fields |-> PlainFields(1)] : c \in {-100, -101, -102, -103}}

\* --------------------------------------------------------------------------
Log == ndJsonDeserialize(LogFile)

Formats == {"json", "msgpack", "cbor"}

\* a well-formed message: every serializer round-trips it to an equal message, and the list
\* on the wire has exactly the number of elements of the list form
GoodOK(r) == \A f \in Formats :
               /\ r.res[f].ok
               /\ r.res[f].fields = r.vec.fields
               /\ r.res[f].n = ListLen(r.vec.code, r.vec.fields)
\* a list that is not a message: every serializer reports an error and yields no message
BadOK(r)  == \A f \in Formats : ~r.res[f].ok

LineOK(r) == IF r.kind = "good" THEN GoodOK(r) ELSE BadOK(r)

BadLines == {i \in DOMAIN Log : ~LineOK(Log[i])}
RECURSIVE FirstN(_, _)
FirstN(Sx, n) == IF Sx = {} \/ n = 0 THEN {}
                 ELSE LET m == CHOOSE x \in Sx : \A y \in Sx : x <= y IN {m} \cup FirstN(Sx \ {m}, n - 1)

Init == CASE Part = "gen"    -> v \in Good
          [] Part = "genbad" -> v \in BadField \cup BadCode
          [] OTHER           -> v = FirstN(BadLines, 8)
Next == UNCHANGED v
Spec == Init /\ [][Next]_v

Emitted == Part = "check" \/ PrintT(<<"SCN", ToJson(v)>>)
Agrees  == Part # "check" \/ v = {}
=============================================================================
