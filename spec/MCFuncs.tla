------------------------------ MODULE MCFuncs ------------------------------
(***************************************************************************)
(* Leg 1 of C19: the rules of URI.tla and IDs.tla checked against each      *)
(* other over a complete small universe (sanity and non-vacuity of the      *)
(* reference the implementation is compared with), and the request id       *)
(* protocol - a sender issuing session scoped ids through NextID, possibly  *)
(* skipping some, a receiver accepting with IsNew, an attacker replaying -  *)
(* explored around the wrap at 2^53.                                        *)
(***************************************************************************)
EXTENDS URI, IDs, TLC

CONSTANTS MaxLen,      \* URIs up to this length
          Alphabet,    \* over these characters
          Part         \* "uri" | "ids"

VARIABLES u, p,        \* a URI and a pattern
          gen, last, rejectedFresh, acceptedDup, steps

vars == <<u, p, gen, last, rejectedFresh, acceptedDup, steps>>

RECURSIVE Strings(_)
Strings(n) == IF n = 0 THEN {<<>>}
              ELSE LET S == Strings(n - 1) IN S \cup {Append(s, c) : s \in {x \in S : Len(x) = n - 1}, c \in Alphabet}

\* -------- URIs
InitURI == /\ u \in Strings(MaxLen) /\ p \in Strings(MaxLen - 1)
           /\ gen = Z(0) /\ last = Z(0) /\ rejectedFresh = FALSE /\ acceptedDup = FALSE /\ steps = 0

\* strict implies loose; exact implies prefix implies wildcard validity
Lattice == \A s \in BOOLEAN :
             /\ ValidURI(s, "exact", u) => ValidURI(s, "prefix", u)
             /\ ValidURI(s, "prefix", u) => ValidURI(s, "wildcard", u)
             /\ \A m \in {"exact", "prefix", "wildcard"} : ValidURI(TRUE, m, u) => ValidURI(FALSE, m, u)
\* a URI valid for exact use has no empty component, no white space, no '#'
ExactMeaning == ValidURI(FALSE, "exact", u) =>
                  /\ u # <<>> /\ u[1] # Dot /\ u[Len(u)] # Dot
                  /\ \A i \in 1..Len(u) : u[i] \notin SpaceChars /\ u[i] # Hash
                  /\ \A i \in 1..(Len(u) - 1) : ~(u[i] = Dot /\ u[i + 1] = Dot)
\* matching
MatchSanity == /\ PrefixMatch(u, u) /\ WildcardMatch(u, u) /\ PrefixMatch(u, <<>>)
               /\ PrefixMatch(u, p) => Len(p) <= Len(u)
               /\ WildcardMatch(u, p) => Len(Split(u)) = Len(Split(p))
               /\ (PrefixMatch(u, p) /\ Len(p) = Len(u)) => u = p
               \* a pattern without empty components matches only itself
               /\ (WildcardMatch(u, p) /\ \A i \in 1..Len(Split(p)) : Split(p)[i] # <<>>) => u = p

\* -------- ids around the wrap
Start == {M(-3), M(-1), M(0), Z(0), Z(2)}
InitIDs == /\ u = <<>> /\ p = <<>>
           /\ gen \in Start /\ last = (IF gen = Z(0) THEN Z(0) ELSE gen)
           /\ rejectedFresh = FALSE /\ acceptedDup = FALSE /\ steps = 0

RECURSIVE Skip(_, _)
Skip(g, k) == IF k = 0 THEN g ELSE Skip(NextID(g), k - 1)

\* the sender issues its next id (having skipped k), the receiver judges it
Issue(k) == LET id == NextID(Skip(gen, k)) IN
            /\ steps < 6 /\ steps' = steps + 1
            /\ gen' = id
            /\ rejectedFresh' = (rejectedFresh \/ ~IsNew(last, id))
            /\ last' = IF IsNew(last, id) THEN id ELSE last
            /\ UNCHANGED <<u, p, acceptedDup>>
\* somebody replays the id the receiver saw last
Replay == /\ last # Z(0) /\ steps < 6 /\ steps' = steps + 1
          /\ acceptedDup' = (acceptedDup \/ IsNew(last, last))
          /\ UNCHANGED <<u, p, gen, last, rejectedFresh>>

NextIDs == (\E k \in 0..2 : Issue(k)) \/ Replay

Init == IF Part = "uri" THEN InitURI ELSE InitIDs
Next == IF Part = "uri" THEN UNCHANGED vars ELSE NextIDs
Spec == Init /\ [][Next]_vars

IssuedInRange == gen = Z(0) \/ InRange(gen)
FreshAccepted == ~rejectedFresh
DupRejected   == ~acceptedDup
=============================================================================
