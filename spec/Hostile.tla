------------------------------- MODULE Hostile -------------------------------
(***************************************************************************)
(* Enumeration of hostile client inputs (C04) and hostile router inputs     *)
(* (C17): well-formed message templates x position (a field or a known      *)
(* option/detail key of that message) x value kind x session phase, plus    *)
(* message types a peer of that role must never send.  TLC enumerates the   *)
(* set (every element is an initial state) and prints each mutant as JSON;  *)
(* the executors build the concrete message.  What the routing              *)
(* specification says about a hostile step is in Trace.tla (TrHostile):     *)
(* havoc confined to the offender, every other session unaffected.          *)
(***************************************************************************)
EXTENDS Integers, Sequences, FiniteSets, TLC, Json

CONSTANT Side      \* "router" (messages a client sends to the router) | "client"

VARIABLE m

\* value kinds of the WAMP data model (plus values outside the id range)
Kinds == {"null", "zero", "neg", "big", "float", "str", "empty", "bytes", "true", "list", "dict", "nested", "uri"}

Phases == {"joined", "prehello", "aftergoodbye", "midcall"}

\* option / detail keys per client-to-router message
Keys(t) ==
  CASE t = "HELLO"       -> {"roles", "authmethods", "authid", "authrole", "authextra", "transport", "roles.callee", "roles.callee.features"}
    [] t = "PUBLISH"     -> {"acknowledge", "exclude_me", "exclude", "eligible", "exclude_authid", "eligible_authrole",
                             "disclose_me", "ppt_scheme", "ppt_serializer", "ppt_cipher", "ppt_keyid", "args", "kwargs", "request"}
    [] t = "SUBSCRIBE"   -> {"match", "get_retained", "request"}
    [] t = "UNSUBSCRIBE" -> {"subscription", "request"}
    [] t = "REGISTER"    -> {"match", "invoke", "disclose_caller", "forward_timeout", "request"}
    [] t = "UNREGISTER"  -> {"registration", "request"}
    [] t = "CALL"        -> {"timeout", "receive_progress", "progress", "disclose_me", "ppt_scheme", "ppt_serializer",
                             "ppt_cipher", "ppt_keyid", "args", "kwargs", "request"}
    [] t = "CANCEL"      -> {"mode", "request"}
    [] t = "YIELD"       -> {"progress", "ppt_scheme", "ppt_serializer", "ppt_cipher", "ppt_keyid", "args", "kwargs", "request"}
    [] t = "ERROR"       -> {"type", "request", "details", "args", "kwargs"}
    [] t = "GOODBYE"     -> {"details", "reason"}
    [] t = "AUTHENTICATE" -> {"signature", "extra"}
    [] OTHER             -> {"none"}

ClientTemplates == {"HELLO", "PUBLISH", "SUBSCRIBE", "UNSUBSCRIBE", "REGISTER", "UNREGISTER", "CALL", "CANCEL",
                    "YIELD", "ERROR", "GOODBYE", "AUTHENTICATE"}
\* message types only a router may send
RouterOnly == {"WELCOME", "ABORT", "CHALLENGE", "PUBLISHED", "SUBSCRIBED", "UNSUBSCRIBED", "EVENT", "REGISTERED",
               "UNREGISTERED", "RESULT", "INVOCATION", "INTERRUPT"}

\* detail keys per router-to-client message (C17)
RKeys(t) ==
  CASE t = "EVENT"      -> {"topic", "publisher", "ppt_scheme", "ppt_serializer", "ppt_cipher", "ppt_keyid", "args", "kwargs",
                            "subscription", "publication"}
    [] t = "INVOCATION" -> {"timeout", "receive_progress", "progress", "caller", "procedure", "ppt_scheme", "ppt_serializer",
                            "ppt_cipher", "ppt_keyid", "args", "kwargs", "request", "registration"}
    [] t = "RESULT"     -> {"progress", "ppt_scheme", "ppt_serializer", "ppt_cipher", "ppt_keyid", "args", "kwargs", "request"}
    [] t = "ERROR"      -> {"type", "request", "details", "error", "args", "kwargs"}
    [] t = "INTERRUPT"  -> {"mode", "reason", "request"}
    [] t = "GOODBYE"    -> {"details", "reason"}
    [] t = "ABORT"      -> {"details", "reason"}
    [] t = "CHALLENGE"  -> {"authmethod", "extra"}
    [] t = "WELCOME"    -> {"session", "roles", "authid"}
    [] t \in {"SUBSCRIBED", "REGISTERED", "PUBLISHED"} -> {"request", "id"}
    [] t \in {"UNSUBSCRIBED", "UNREGISTERED"} -> {"request"}
    [] OTHER            -> {"none"}
RouterTemplates == {"EVENT", "INVOCATION", "RESULT", "ERROR", "INTERRUPT", "GOODBYE", "ABORT", "CHALLENGE", "WELCOME",
                    "SUBSCRIBED", "REGISTERED", "PUBLISHED", "UNSUBSCRIBED", "UNREGISTERED"}
ClientOnly == {"HELLO", "PUBLISH", "SUBSCRIBE", "UNSUBSCRIBE", "REGISTER", "UNREGISTER", "CALL", "CANCEL", "YIELD", "AUTHENTICATE"}

Mutants ==
  IF Side = "router"
  THEN {x \in [t : ClientTemplates, pos : UNION {Keys(y) : y \in ClientTemplates}, kind : Kinds, phase : {"joined"}, drop : {FALSE}] :
               x.pos \in Keys(x.t)}
  ELSE {x \in [t : RouterTemplates, pos : UNION {RKeys(y) : y \in RouterTemplates}, kind : Kinds, phase : {"joined"}, drop : {FALSE}] :
               x.pos \in RKeys(x.t)}

\* wrong-role message types and the other phases (one representative kind each)
Extras ==
  IF Side = "router"
  THEN {[t |-> t, pos |-> "none", kind |-> "null", phase |-> ph, drop |-> d] :
           t \in RouterOnly \cup ClientTemplates \cup {"UNKNOWN"}, ph \in Phases, d \in BOOLEAN}
  ELSE {[t |-> t, pos |-> "none", kind |-> "null", phase |-> ph, drop |-> d] :
           t \in ClientOnly \cup RouterTemplates \cup {"UNKNOWN"}, ph \in {"joined", "prewelcome", "midcall"}, d \in BOOLEAN}

Init == m \in Mutants \cup Extras
Next == UNCHANGED m
Spec == Init /\ [][Next]_m

Emitted == PrintT(<<"SCN", ToJson(m)>>)
=============================================================================
