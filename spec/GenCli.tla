-------------------------------- MODULE GenCli --------------------------------
(***************************************************************************)
(* Scenario generator for the client: application goroutines using the API  *)
(* concurrently, a scripted router answering in any order, late, twice,     *)
(* with the wrong type, exactly at a timeout; invocations and interrupts in  *)
(* any order; hostile messages; disconnects; Close.                         *)
(***************************************************************************)
EXTENDS Cli, Json

CONSTANTS Depth, KindBag

VARIABLE h
gvars == <<cvars, h>>

G      == {"g1", "g2", "g3", "g4"}
Topics == {"t1", "t2"}
Procs  == {"p1", "p2"}

In0 == [op |-> "", g |-> "", kind |-> "", name |-> "", prog |-> FALSE, id |-> 0, mk |-> "", a |-> 0, ms |-> 0,
        mode |-> "", inv |-> 0, reg |-> 0, tmo |-> 0, how |-> "", sub |-> 0, hm |-> [t |-> "", pos |-> "", kind |-> "", phase |-> "", drop |-> FALSE]]

R(S) == {RandomElement(S)}
W(q) == {q[RandomElement(1..Len(q))]}
N    == Len(h) + 1

Step(i, S) == h' = Append(h, i) /\ CCommit(S)

Idle == {g \in G : ~Busy(CCur, g)}
\* progress handlers that take time are generated only by bags naming the kind "slow"; while one runs
\* the router says nothing (a running handler holds back the client's receive loop: not modelled)
SlowBag == \E n \in DOMAIN KindBag : KindBag[n] = "slow"
Quiet   == \A g \in DOMAIN ops : ops[g].busy <= cnow

GApi ==
  \E g \in R(Idle) : \E kind \in W(<<"sub", "sub", "reg", "reg", "pub", "call", "call", "call", "unsub", "unreg">>) :
  \E name \in R(IF kind \in {"sub", "unsub", "pub"} THEN Topics ELSE Procs), prog \in R(BOOLEAN), slow \in (IF SlowBag THEN W(<<0, 50, 50>>) ELSE {0}) :
    LET p == kind = "call" /\ prog
        sl == IF p THEN slow ELSE 0 IN
    Step([In0 EXCEPT !.op = "api", !.g = g, !.kind = kind, !.name = name, !.prog = p, !.tmo = sl], ApiFx(CCur, g, kind, name, p, sl))

\* CallProgressive: one to three chunks, ended in each of the three ways
GCallProg ==
  \E g \in R(Idle) : \E name \in R(Procs), prog \in R(BOOLEAN), n \in W(<<1, 2, 2, 3>>), how \in W(<<"false", "false", "unset", "unset", "err">>) :
    Step([In0 EXCEPT !.op = "api", !.g = g, !.kind = "callp", !.name = name, !.prog = prog, !.a = n, !.how = how],
         CallProgFx(CCur, g, name, prog, 0, n, how))

\* ids the router may put into a reply: those somebody waits for, finished ones, unknown ones
ReplyKinds(kind) == <<Expected(kind), Expected(kind), Expected(kind), "ERROR", "PUBLISHED", "RESULT", "SUBSCRIBED">>
\* let the running progress handler finish
GWait == LET t == CHOOSE x \in {ops[g].busy : g \in {y \in DOMAIN ops : ops[y].busy > cnow}} : TRUE IN
         \E tie \in R({"reply", "timer"}) :
           Step([In0 EXCEPT !.op = "advance", !.ms = t - cnow], CAdvanceFx(CCur, t - cnow, tie, "lo"))

GReply ==
  IF Active(CCur) = {} \/ ~conn THEN GApi
  ELSE \E g \in R(Active(CCur)) : \E which \in R(1..8) : \E old \in R(1..(nreq + 1)) :
         LET op == ops[g]
             id == IF which = 1 THEN nreq + 7 ELSE IF which = 2 THEN old ELSE op.req
         \* (no second progressive result while the handler of the first is still running: it would
         \*  hold back the client's receive loop, which the specification does not model)
             tbusy == \E g2 \in Active(CCur) : ops[g2].req = id /\ ops[g2].busy > cnow
         IN \E mk \in (IF op.busy > cnow \/ tbusy THEN W(<<"ERROR", "RESULT", "ERROR">>)
                       ELSE IF op.kind = "call" /\ which \in {3, 4, 5} THEN {"RESULTP"} ELSE W(ReplyKinds(op.kind))) :
            LET a == IF mk = "RESULTP" THEN N ELSE 100 + N IN
            Step([In0 EXCEPT !.op = "reply", !.id = id, !.mk = mk, !.a = a], ReplyFx(CCur, id, mk, a))

\* a reply scheduled for exactly (or just around) the instant an operation gives up
GSched ==
  LET timed == {g \in Active(CCur) : ops[g].dl # 0 /\ ops[g].dl > cnow} IN
  IF timed = {} \/ ~conn THEN GApi
  ELSE \E g \in R(timed) : \E off \in W(<<0, 0, 0, -1, 1>>) :
         LET op == ops[g]
             ms == op.dl - cnow + off
             mk == IF op.st = "canceling" THEN "ERROR" ELSE Expected(op.kind)
         IN ms > 0 /\ Step([In0 EXCEPT !.op = "sched", !.id = op.req, !.mk = mk, !.a = 100 + N, !.ms = ms],
                           ScheduleFx(CCur, op.req, mk, 100 + N, ms))

Deadlines == {ops[g].dl - cnow : g \in {x \in Active(CCur) : ops[x].dl > cnow}}
             \cup {ops[g].busy - cnow : g \in {x \in Active(CCur) : ops[x].busy > cnow}}
             \cup {invs[i].dl - cnow : i \in {x \in Running(CCur) : invs[x].dl > cnow}}
             \cup (IF closing > cnow THEN {closing - cnow} ELSE {})
             \cup {sched[i].at - cnow : i \in {j \in DOMAIN sched : sched[j].at > cnow}}
GAdvance ==
  \E pick \in R(1..4) : \E d \in R(IF Deadlines # {} THEN Deadlines ELSE {1}) :
  \E ms \in (IF Deadlines # {} /\ pick # 1 THEN W(<<d, d, d, IF d > 1 THEN d - 1 ELSE d, d + 1>>) ELSE R({1, 10, rt, 2 * rt})) :
  \E tie \in R({"reply", "timer"}) :
    Step([In0 EXCEPT !.op = "advance", !.ms = ms], CAdvanceFx(CCur, ms, tie, "lo"))

\* the router keeps streaming results for a call that was cancelled (it is slow to honour the CANCEL) ...
GStream ==
  LET cs == {g \in Active(CCur) : ops[g].st = "canceling"} IN
  IF cs = {} \/ ~conn THEN GReply
  ELSE \E g \in R(cs) : \E mk \in W(<<"RESULTP", "RESULTP", "RESULT">>) :
         Step([In0 EXCEPT !.op = "reply", !.id = ops[g].req, !.mk = mk, !.a = N], ReplyFx(CCur, ops[g].req, mk, N))
\* ... at intervals shorter than the response timeout
GAdvPart == \E tie \in R({"reply", "timer"}) :
              Step([In0 EXCEPT !.op = "advance", !.ms = (rt * 3) \div 5], CAdvanceFx(CCur, (rt * 3) \div 5, tie, "lo"))

GCancel ==
  LET cs == {g \in Active(CCur) : ops[g].kind = "call" /\ ops[g].st = "waiting"} IN
  IF cs = {} THEN GApi
  ELSE \E g \in R(cs) : Step([In0 EXCEPT !.op = "cancel", !.g = g], CancelCtxFx(CCur, g, "killnowait"))

GInv ==
  IF ~conn THEN GApi
  ELSE \E reg \in R(Rng(cregs) \cup {77}) : \E which \in R(1..6) : \E tmo \in W(<<0, 0, 0, 50>>) :
       \E old \in R(1..(lastinv + 1)), up \in R(1..2), rp \in R(BOOLEAN) :
         LET inv == IF which = 1 THEN old ELSE lastinv + up IN
         inv \notin Running(CCur) /\
         Step([In0 EXCEPT !.op = "inv", !.reg = reg, !.inv = inv, !.tmo = tmo, !.prog = rp], InvocationRpFx(CCur, reg, inv, tmo, rp))

GIntr ==
  IF ~conn THEN GApi
  ELSE \E inv \in R(Running(CCur) \cup {lastinv + 3} \cup DOMAIN invs) :
         Step([In0 EXCEPT !.op = "intr", !.inv = inv], InterruptFx(CCur, inv))

GRelease ==
  IF DOMAIN invs = {} THEN GInv
  ELSE \E inv \in R(IF Running(CCur) # {} THEN Running(CCur) ELSE DOMAIN invs) : \E how \in (IF deaf THEN W(<<"yield", "yield", "error">>) ELSE W(<<"yield", "yield", "error", "prog", "prog">>)) :
         IF how = "prog"
         THEN inv \in Running(CCur) /\ Step([In0 EXCEPT !.op = "sendprog", !.inv = inv], SendProgFx(CCur, inv))
         ELSE Step([In0 EXCEPT !.op = "release", !.inv = inv, !.how = how], ReleaseFx(CCur, inv, how))

GEvent ==
  IF ~conn THEN GApi
  ELSE \E sub \in R(Rng(csubs) \cup {88}) :
         Step([In0 EXCEPT !.op = "event", !.sub = sub, !.a = N], EventFx(CCur, sub, N))

\* hostile router messages: spec/Hostile.tla enumerates them; the generator draws from a
\* representative subset (the complete set is executed by the C17 check separately)
HKinds == {"null", "zero", "neg", "big", "float", "str", "bytes", "true", "list", "dict"}
HPos(t) == CASE t = "EVENT" -> {"topic", "publisher", "ppt_scheme", "ppt_serializer", "ppt_cipher", "args", "kwargs", "subscription"}
             [] t = "INVOCATION" -> {"timeout", "receive_progress", "progress", "caller", "ppt_scheme", "ppt_serializer", "ppt_keyid", "args", "registration"}
             [] t = "RESULT" -> {"progress", "ppt_scheme", "ppt_serializer", "args", "kwargs", "request"}
             [] t = "ERROR" -> {"type", "request", "details", "error"}
             [] t = "INTERRUPT" -> {"mode", "reason", "request"}
             [] OTHER -> {"none"}
GHostile ==
  IF ~conn THEN GApi
  ELSE \E t \in R({"EVENT", "INVOCATION", "RESULT", "ERROR", "INTERRUPT", "CHALLENGE", "WELCOME", "SUBSCRIBED", "HELLO", "PUBLISH", "UNKNOWN"}) :
       \E pos \in R(HPos(t)), kind \in R(HKinds), sb \in R(Rng(csubs) \cup {0}), rg \in R(Rng(cregs) \cup {0}) :
         LET wc == {ops[g].req : g \in {x \in Active(CCur) : ops[x].kind = "call" /\ ops[x].st = "waiting"}}
             tgt == IF t = "RESULT" /\ pos \in {"ppt_scheme", "ppt_serializer", "args", "kwargs"} /\ wc # {} THEN CHOOSE x \in wc : TRUE ELSE 0
             S1 == IF tgt = 0 THEN CCur ELSE LET g == CHOOSE x \in Waiter(CCur, tgt) : TRUE IN Finish(CCur, g)
         IN Step([In0 EXCEPT !.op = "hostile", !.hm = [t |-> t, pos |-> pos, kind |-> kind, phase |-> "joined", drop |-> FALSE],
                             !.sub = sb, !.reg = rg, !.id = tgt], S1)

\* the router repeats the INVOCATION of a running invocation (same request id) several
\* times: a duplicate, to be ignored; whatever the client does about it, it must go on
GDupInv ==
  IF Running(CCur) = {} \/ ~conn THEN GInv
  ELSE \E inv \in R(Running(CCur)) :
         Step([In0 EXCEPT !.op = "hostile", !.hm = [t |-> "DUPINV", pos |-> "none", kind |-> "null", phase |-> "joined", drop |-> FALSE],
                          !.inv = inv, !.reg = invs[inv].reg], CCur)

GDisconnect ==
  IF ~conn THEN GApi
  ELSE \E how \in R({"goodbye", "abort", "drop"}) : Step([In0 EXCEPT !.op = how], DisconnectFx(CCur))

GClose == IF closed \/ closing # 0 THEN GAdvance ELSE Step([In0 EXCEPT !.op = "close"], CloseFx(CCur))

\* towards a running invocation, one useful step at a time: register, have it acknowledged, invoke
GSetup ==
  IF ~conn THEN GApi
  ELSE IF Rng(cregs) = {}
  THEN LET w == {g \in Active(CCur) : ops[g].kind = "reg" /\ ops[g].st = "waiting"} IN
       IF w # {} THEN \E g \in R(w) : Step([In0 EXCEPT !.op = "reply", !.id = ops[g].req, !.mk = "REGISTERED", !.a = 100 + N],
                                              ReplyFx(CCur, ops[g].req, "REGISTERED", 100 + N))
       ELSE IF Idle = {} THEN GAdvance
       ELSE \E g \in R(Idle) : \E name \in R(Procs) :
              Step([In0 EXCEPT !.op = "api", !.g = g, !.kind = "reg", !.name = name], ApiFx(CCur, g, "reg", name, FALSE, 0))
  ELSE \E reg \in R(Rng(cregs)) : \E rp \in R(BOOLEAN) :
         Step([In0 EXCEPT !.op = "inv", !.reg = reg, !.inv = lastinv + 1, !.prog = rp], InvocationRpFx(CCur, reg, lastinv + 1, 0, rp))

\* the router stops reading while an invocation handler is running; from then on it only talks
GDeaf == IF conn /\ ~deaf /\ Running(CCur) # {} THEN Step([In0 EXCEPT !.op = "deaf"], DeafFx(CCur)) ELSE GSetup

GenNext ==
  /\ Len(h) < Depth
  /\ \E kind \in (IF deaf THEN W(<<"release", "release", "intr", "adv", "disc", "close", "close">>) ELSE W(KindBag)) :
       CASE kind = "api" -> GApi [] kind = "reply" -> GReply [] kind = "sched" -> GSched [] kind = "adv" -> GAdvance
         [] kind = "cancel" -> GCancel [] kind = "inv" -> GInv [] kind = "intr" -> GIntr [] kind = "release" -> GRelease
         [] kind = "event" -> GEvent [] kind = "hostile" -> GHostile [] kind = "disc" -> GDisconnect [] kind = "close" -> GClose [] kind = "dupinv" -> GDupInv
         [] kind = "slow" -> GCancel [] kind = "callp" -> GCallProg [] kind = "deaf" -> GDeaf [] kind = "setup" -> GSetup [] kind = "stream" -> GStream [] kind = "advpart" -> GAdvPart
         [] OTHER -> GAdvance

GenInit == h = <<>> /\ \E t \in {1000, 200} : CInitWith(t)
GenSpec == GenInit /\ [][GenNext]_gvars
Emitted == Len(h) < Depth \/ PrintT(<<"SCN", ToJson([rt |-> rt, steps |-> h])>>)
=============================================================================
