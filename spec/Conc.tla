-------------------------------- MODULE Conc --------------------------------
(***************************************************************************)
(* The goroutine / channel skeleton of one nexus realm (DESIGN section 1):  *)
(* one process per goroutine, one label per channel operation.  Messages    *)
(* are reduced to their kind and a sequence number.  TLC explores every     *)
(* interleaving of a small population:                                      *)
(*   session handlers  H[s]   (realm.handleInboundMessages)                 *)
(*   the broker        B      (broker.run: only trySend, never blocks)      *)
(*   the dealer        D      (dealer.run)                                  *)
(*   the realm         R      (realm.run)                                   *)
(*   a call timer      T      (the goroutine started by dealer.syncCall)    *)
(*   the closer        C      (router.Close -> realm.close)                 *)
(*   an attacher       A      (router.AttachClient after the HELLO)         *)
(*   clients           K[s]   (send requests, read or stall)                *)
(* Unbuffered Go channels are modelled as one-slot hand-offs (the sender    *)
(* fills the slot when empty, the owner empties it when it takes the        *)
(* action); client queues are bounded FIFOs with drop-on-full.              *)
(*                                                                          *)
(* Named deviations reproduce defects found in the code (now fixed) so that *)
(* TLC shows the properties are not vacuous:                                *)
(*   DevCloseEarly          at realm shutdown every handler closes its peer *)
(*                          itself while broker and dealer still hold the   *)
(*                          session (send on closed channel)                *)
(*   DevWelcomeAfterStart   WELCOME is sent after the handler was started   *)
(*                          (WELCOME on a closed channel)                   *)
(*   DevTimerAfterClose     the call timer submits to a closed dealer       *)
(*   DevAsyncPublish        the broker hands every publication to a new     *)
(*                          goroutine (breaks per-publisher order, C08)     *)
(*   DevBlockingSend        the broker blocks on a full client queue (C07)  *)
(***************************************************************************)
EXTENDS Integers, Sequences, FiniteSets, TLC

CONSTANTS Sessions,      \* session names
          QCap,          \* capacity of every client queue
          Publishers,    \* the sessions that publish
          NPub,          \* publications each publishing client sends
          Deviations

NULL == [k |-> "null"]        \* the empty hand-off slot (a record, comparable with the actions)
NOBODY == "nobody"

(* --algorithm conc
variables
  inbox    = [s \in Sessions |-> <<>>],   \* client -> router (what the client has written, FIFO)
  q        = [s \in Sessions |-> <<>>],   \* router -> client bounded queue
  qclosed  = [s \in Sessions |-> FALSE],  \* the router closed the peer
  stalled  = [s \in Sessions |-> FALSE],  \* the client does not read
  got      = [s \in Sessions |-> <<>>],   \* what the client has read (history)
  dropped  = [s \in Sessions |-> 0],
  recvDone = [s \in Sessions |-> FALSE],  \* EndRecv was called for the session
  members  = {},                          \* sessions in realm.clients
  started  = {},                          \* sessions whose message handler was started
  everJoined = {},
  shutSessions = {},                      \* realm.shutdownSessions
  subs     = {},                          \* broker: subscribed sessions (one topic)
  callee   = NOBODY,                        \* dealer: the session registered for the one procedure
  pcall     = NULL,                        \* dealer: pending call [caller, st]
  brokerIn = NULL, brokerClosed = FALSE,
  dealerIn = NULL, dealerClosed = FALSE, dealerAck = FALSE,
  realmIn  = NULL, realmClosed = FALSE, realmAck = {},   \* every realm action has its own reply channel
  handlers = 0,                           \* realm.waitHandlers
  closeLock = FALSE,                      \* realm.closeLock is held
  realmShut = FALSE,                      \* realm.closed
  timerArmed = FALSE, timerCanceled = FALSE,
  closeCalled = FALSE, closeReturned = FALSE,
  brokerStopped = FALSE, dealerStopped = FALSE, realmStopped = FALSE,
  panic = "",                             \* a send on / close of a closed channel
  pending = {};                           \* publications handed to helper goroutines (DevAsyncPublish)

define
  TrySendOK(s) == Len(q[s]) < QCap
  Joined(s) == s \in members
  \* what a session published, as received by r: must be in publication order (C08)
  FromTo(p, r) == SelectSeq(got[r], LAMBDA m : m.k = "event" /\ m.from = p)
  Increasing(sq) == \A i, j \in DOMAIN sq : i < j => sq[i].n < sq[j].n
end define;

macro trysend(s, m) begin
  if qclosed[s] then
    panic := "send on closed channel";
  elsif Len(q[s]) < QCap then
    q[s] := Append(q[s], m);
  else
    dropped[s] := dropped[s] + 1;
  end if;
end macro;

\* ---------------------------------------------------------------- clients
fair process K \in {<<"K", s>> : s \in Sessions}
variables me = self[2], sent = 0, stalls = 0;
begin
k0: while TRUE do
      either \* publish
        await me \in Publishers /\ sent < NPub /\ ~qclosed[me];
        sent := sent + 1;
        inbox[me] := Append(inbox[me], [k |-> "pub", n |-> sent]);
      or     \* read one message
        await ~stalled[me] /\ q[me] # <<>>;
        got[me] := Append(got[me], Head(q[me]));
        q[me] := Tail(q[me]);
      or     \* stop / resume reading
        await me = "s2" /\ ~stalled[me] /\ stalls < 1;
        stalled[me] := TRUE;
        stalls := stalls + 1;
      or
        await stalled[me];
        stalled[me] := FALSE;
      end either;
    end while;
end process;

\* ------------------------------------------------------- session handlers
fair process H \in {<<"H", s>> : s \in Sessions}
variables me = self[2], msg = NULL, shut = FALSE;
begin
h0: await me \in started;                      \* started by handleSession
    subs := subs \cup {me};                       \* (abstraction) the session's SUBSCRIBE, executed by the broker
h1: while TRUE do
      either
        await inbox[me] # <<>>;
        msg := Head(inbox[me]);
        inbox[me] := Tail(inbox[me]);
        h2: \* broker.publish: hand the action to the broker goroutine (unbuffered)
            await brokerIn = NULL;
            if brokerClosed then
              panic := "handler submits to closed broker";
            else
              brokerIn := [k |-> "pub", from |-> me, n |-> msg.n];
            end if;
      or
        await recvDone[me];
        goto h5;
      end either;
    end while;
h5: \* leaving: GOODBYE (non-blocking), then onLeave through the realm goroutine
    shut := realmShut;
    if ~qclosed[me] /\ TrySendOK(me) then q[me] := Append(q[me], [k |-> "goodbye", from |-> me, n |-> 0]); end if;
h6: await realmIn = NULL;
    realmIn := [k |-> "leave", s |-> me, shutdown |-> shut];
h7: await <<"H", me>> \in realmAck;
    realmAck := realmAck \ {<<"H", me>>};
h8: \* sess.Close(), unless the realm is shutting down: then realm.close() closes the
    \* peer after broker and dealer have stopped
    if ~shut \/ "DevCloseEarly" \in Deviations then
      if qclosed[me] then panic := "close of closed channel"; else qclosed[me] := TRUE; end if;
    end if;
h9: handlers := handlers - 1;
end process;

\* ------------------------------------------------------------ the broker
fair process B = <<"B", "-">>
variables act = NULL, todo = {};
begin
b0: while TRUE do
      await brokerIn # NULL \/ brokerClosed;
      if brokerIn = NULL then goto bdone; end if;
b1:   act := brokerIn;
      brokerIn := NULL;
      if act.k = "pub" then
        if "DevAsyncPublish" \in Deviations then
          pending := pending \cup {act};
        else
          todo := subs \ {act.from};
          b2: while todo # {} do
                with s \in todo do
                  if "DevBlockingSend" \in Deviations then
                    await Len(q[s]) < QCap \/ qclosed[s];
                  end if;
                  trysend(s, [k |-> "event", from |-> act.from, n |-> act.n]);
                  todo := todo \ {s};
                end with;
              end while;
        end if;
      elsif act.k = "remove" then
        subs := subs \ {act.s};
      end if;
    end while;
bdone: brokerStopped := TRUE;
end process;

\* helper goroutines of the DevAsyncPublish deviation
fair process P = <<"P", "-">>
begin
p0: while TRUE do
      await pending # {};
      with a \in pending do
        pending := pending \ {a};
        if subs \ {a.from} # {} then
          with s \in subs \ {a.from} do
            trysend(s, [k |-> "event", from |-> a.from, n |-> a.n]);
          end with;
        end if;
      end with;
    end while;
end process;

\* ------------------------------------------------------------ the dealer
fair process D = <<"D", "-">>
variables dact = NULL;
begin
d0: while TRUE do
      await dealerIn # NULL \/ dealerClosed;
      if dealerIn = NULL then goto ddone; end if;
d1:   dact := dealerIn;
      dealerIn := NULL;
      if dact.k = "remove" then
        if callee = dact.s then callee := NOBODY; end if;
        if pcall # NULL /\ pcall.caller = dact.s then pcall := NULL; timerCanceled := TRUE; end if;
        dealerAck := TRUE;
      elsif dact.k = "timeout" then
        if pcall # NULL then
          trysend(pcall.caller, [k |-> "error", from |-> "D", n |-> 0]);
          pcall := NULL;
        end if;
      elsif dact.k = "canceltimers" then
        timerCanceled := TRUE;
        dealerAck := TRUE;
      end if;
    end while;
ddone: dealerStopped := TRUE;
end process;

\* the goroutine that waits for the call timeout
fair process T = <<"T", "-">>
begin
t0: await timerArmed;
t1: either await timerCanceled; goto tdone;
    or skip;                                        \* the timeout expires
    end either;
t2: \* submit the cancel to the dealer
    if dealerClosed then
      if "DevTimerAfterClose" \in Deviations then panic := "timer submits to closed dealer"; end if;
      goto tdone;
    else
      await dealerIn = NULL \/ dealerClosed;
      if dealerClosed then
        if "DevTimerAfterClose" \in Deviations then panic := "timer submits to closed dealer"; end if;
      else
        dealerIn := [k |-> "timeout"];
      end if;
    end if;
tdone: skip;
end process;

\* ------------------------------------------------------------- the realm
fair process R = <<"R", "-">>
variables ract = NULL;
begin
r0: while TRUE do
      await realmIn # NULL \/ realmClosed;
      if realmIn = NULL then goto rdone; end if;
r1:   ract := realmIn;
      realmIn := NULL;
      if ract.k = "leave" then
        members := members \ {ract.s};
        if ract.shutdown then
          shutSessions := shutSessions \cup {ract.s};
        end if;
        if ~ract.shutdown then
          \* broker.removeSession: hand over, do not wait
          r2: await brokerIn = NULL;
              if brokerClosed then panic := "realm submits to closed broker";
              else brokerIn := [k |-> "remove", s |-> ract.s]; end if;
          \* dealer.removeSession: hand over and wait
          r3: await dealerIn = NULL;
              if dealerClosed then panic := "realm submits to closed dealer";
              else dealerIn := [k |-> "remove", s |-> ract.s]; end if;
          r4: await dealerAck; dealerAck := FALSE;
        end if;
        r5: realmAck := realmAck \cup {<<"H", ract.s>>};
      elsif ract.k = "join" then
        members := members \cup {ract.s};
        everJoined := everJoined \cup {ract.s};
        realmAck := realmAck \cup {<<"A", ract.s>>};
      elsif ract.k = "endall" then
        recvDone := [s \in Sessions |-> recvDone[s] \/ s \in members];
        realmAck := realmAck \cup {<<"C", "-">>};
      end if;
    end while;
rdone: realmStopped := TRUE;
end process;

\* ---------------------------------------------------------- the attacher
\* AttachClient for session "s1" and "s2" (one after the other), after HELLO
fair process A \in {<<"A", s>> : s \in Sessions}
variables me = self[2];
begin
a0: if closeReturned then goto adone; end if;       \* router closed: ABORT
a1: await ~closeLock;                               \* handleSession
    closeLock := TRUE;
a2: if realmShut then
      closeLock := FALSE;
      goto adone;
    else
      handlers := handlers + 1;
    end if;
a3: await realmIn = NULL;                           \* onJoin through the realm goroutine
    realmIn := [k |-> "join", s |-> me];
a4: await <<"A", me>> \in realmAck;
    realmAck := realmAck \ {<<"A", me>>};
    closeLock := FALSE;
    if "DevWelcomeAfterStart" \in Deviations then started := started \cup {me}; end if;
a5: \* WELCOME (blocking send of the attach goroutine), then the handler is started
    if qclosed[me] then panic := "welcome on closed channel";
    else
      await Len(q[me]) < QCap \/ qclosed[me];
      if ~qclosed[me] then q[me] := Append(q[me], [k |-> "welcome", from |-> me, n |-> 0]); end if;
    end if;
a6: started := started \cup {me};
adone: skip;
end process;

\* ------------------------------------------------------------ the closer
fair process C = <<"C", "-">>
begin
c0: closeCalled := TRUE;
    \* a call with a router-side timeout is pending when the shutdown starts
    timerArmed := TRUE;
c1: await ~closeLock;
    closeLock := TRUE;
    realmShut := TRUE;
c2: await realmIn = NULL;
    realmIn := [k |-> "endall"];
c3: await <<"C", "-">> \in realmAck;
    realmAck := realmAck \ {<<"C", "-">>};
c4: await handlers = 0;                             \* waitHandlers.Wait()
c5: \* dealer.close(): stop the timers, then close the channel
    await dealerIn = NULL;
    dealerIn := [k |-> "canceltimers"];
c6: await dealerAck; dealerAck := FALSE;
c7: dealerClosed := TRUE;
c7w: await dealerStopped;                           \* <-d.stopped
c8: brokerClosed := TRUE;
c8w: await brokerStopped;
c8x: \* nothing can be routed any more: close the peers of the sessions ended by the shutdown
    qclosed := [s \in Sessions |-> qclosed[s] \/ s \in shutSessions];
c9: realmClosed := TRUE;
c9w: await realmStopped;
    closeLock := FALSE;
c10: closeReturned := TRUE;
end process;

end algorithm; *)
\* BEGIN TRANSLATION
\* Process variable me of process K at line 90 col 11 changed to me_
\* Process variable me of process H at line 114 col 11 changed to me_H
VARIABLES pc, inbox, q, qclosed, stalled, got, dropped, recvDone, members, 
          started, everJoined, shutSessions, subs, callee, pcall, brokerIn, 
          brokerClosed, dealerIn, dealerClosed, dealerAck, realmIn, 
          realmClosed, realmAck, handlers, closeLock, realmShut, timerArmed, 
          timerCanceled, closeCalled, closeReturned, brokerStopped, 
          dealerStopped, realmStopped, panic, pending

(* define statement *)
TrySendOK(s) == Len(q[s]) < QCap
Joined(s) == s \in members

FromTo(p, r) == SelectSeq(got[r], LAMBDA m : m.k = "event" /\ m.from = p)
Increasing(sq) == \A i, j \in DOMAIN sq : i < j => sq[i].n < sq[j].n

VARIABLES me_, sent, stalls, me_H, msg, shut, act, todo, dact, ract, me

vars == << pc, inbox, q, qclosed, stalled, got, dropped, recvDone, members, 
           started, everJoined, shutSessions, subs, callee, pcall, brokerIn, 
           brokerClosed, dealerIn, dealerClosed, dealerAck, realmIn, 
           realmClosed, realmAck, handlers, closeLock, realmShut, timerArmed, 
           timerCanceled, closeCalled, closeReturned, brokerStopped, 
           dealerStopped, realmStopped, panic, pending, me_, sent, stalls, 
           me_H, msg, shut, act, todo, dact, ract, me >>

ProcSet == ({<<"K", s>> : s \in Sessions}) \cup ({<<"H", s>> : s \in Sessions}) \cup {<<"B", "-">>} \cup {<<"P", "-">>} \cup {<<"D", "-">>} \cup {<<"T", "-">>} \cup {<<"R", "-">>} \cup ({<<"A", s>> : s \in Sessions}) \cup {<<"C", "-">>}

Init == (* Global variables *)
        /\ inbox = [s \in Sessions |-> <<>>]
        /\ q = [s \in Sessions |-> <<>>]
        /\ qclosed = [s \in Sessions |-> FALSE]
        /\ stalled = [s \in Sessions |-> FALSE]
        /\ got = [s \in Sessions |-> <<>>]
        /\ dropped = [s \in Sessions |-> 0]
        /\ recvDone = [s \in Sessions |-> FALSE]
        /\ members = {}
        /\ started = {}
        /\ everJoined = {}
        /\ shutSessions = {}
        /\ subs = {}
        /\ callee = NOBODY
        /\ pcall = NULL
        /\ brokerIn = NULL
        /\ brokerClosed = FALSE
        /\ dealerIn = NULL
        /\ dealerClosed = FALSE
        /\ dealerAck = FALSE
        /\ realmIn = NULL
        /\ realmClosed = FALSE
        /\ realmAck = {}
        /\ handlers = 0
        /\ closeLock = FALSE
        /\ realmShut = FALSE
        /\ timerArmed = FALSE
        /\ timerCanceled = FALSE
        /\ closeCalled = FALSE
        /\ closeReturned = FALSE
        /\ brokerStopped = FALSE
        /\ dealerStopped = FALSE
        /\ realmStopped = FALSE
        /\ panic = ""
        /\ pending = {}
        (* Process K *)
        /\ me_ = [self \in {<<"K", s>> : s \in Sessions} |-> self[2]]
        /\ sent = [self \in {<<"K", s>> : s \in Sessions} |-> 0]
        /\ stalls = [self \in {<<"K", s>> : s \in Sessions} |-> 0]
        (* Process H *)
        /\ me_H = [self \in {<<"H", s>> : s \in Sessions} |-> self[2]]
        /\ msg = [self \in {<<"H", s>> : s \in Sessions} |-> NULL]
        /\ shut = [self \in {<<"H", s>> : s \in Sessions} |-> FALSE]
        (* Process B *)
        /\ act = NULL
        /\ todo = {}
        (* Process D *)
        /\ dact = NULL
        (* Process R *)
        /\ ract = NULL
        (* Process A *)
        /\ me = [self \in {<<"A", s>> : s \in Sessions} |-> self[2]]
        /\ pc = [self \in ProcSet |-> CASE self \in {<<"K", s>> : s \in Sessions} -> "k0"
                                        [] self \in {<<"H", s>> : s \in Sessions} -> "h0"
                                        [] self = <<"B", "-">> -> "b0"
                                        [] self = <<"P", "-">> -> "p0"
                                        [] self = <<"D", "-">> -> "d0"
                                        [] self = <<"T", "-">> -> "t0"
                                        [] self = <<"R", "-">> -> "r0"
                                        [] self \in {<<"A", s>> : s \in Sessions} -> "a0"
                                        [] self = <<"C", "-">> -> "c0"]

k0(self) == /\ pc[self] = "k0"
            /\ \/ /\ me_[self] \in Publishers /\ sent[self] < NPub /\ ~qclosed[me_[self]]
                  /\ sent' = [sent EXCEPT ![self] = sent[self] + 1]
                  /\ inbox' = [inbox EXCEPT ![me_[self]] = Append(inbox[me_[self]], [k |-> "pub", n |-> sent'[self]])]
                  /\ UNCHANGED <<q, stalled, got, stalls>>
               \/ /\ ~stalled[me_[self]] /\ q[me_[self]] # <<>>
                  /\ got' = [got EXCEPT ![me_[self]] = Append(got[me_[self]], Head(q[me_[self]]))]
                  /\ q' = [q EXCEPT ![me_[self]] = Tail(q[me_[self]])]
                  /\ UNCHANGED <<inbox, stalled, sent, stalls>>
               \/ /\ me_[self] = "s2" /\ ~stalled[me_[self]] /\ stalls[self] < 1
                  /\ stalled' = [stalled EXCEPT ![me_[self]] = TRUE]
                  /\ stalls' = [stalls EXCEPT ![self] = stalls[self] + 1]
                  /\ UNCHANGED <<inbox, q, got, sent>>
               \/ /\ stalled[me_[self]]
                  /\ stalled' = [stalled EXCEPT ![me_[self]] = FALSE]
                  /\ UNCHANGED <<inbox, q, got, sent, stalls>>
            /\ pc' = [pc EXCEPT ![self] = "k0"]
            /\ UNCHANGED << qclosed, dropped, recvDone, members, started, 
                            everJoined, shutSessions, subs, callee, pcall, 
                            brokerIn, brokerClosed, dealerIn, dealerClosed, 
                            dealerAck, realmIn, realmClosed, realmAck, 
                            handlers, closeLock, realmShut, timerArmed, 
                            timerCanceled, closeCalled, closeReturned, 
                            brokerStopped, dealerStopped, realmStopped, panic, 
                            pending, me_, me_H, msg, shut, act, todo, dact, 
                            ract, me >>

K(self) == k0(self)

h0(self) == /\ pc[self] = "h0"
            /\ me_H[self] \in started
            /\ subs' = (subs \cup {me_H[self]})
            /\ pc' = [pc EXCEPT ![self] = "h1"]
            /\ UNCHANGED << inbox, q, qclosed, stalled, got, dropped, recvDone, 
                            members, started, everJoined, shutSessions, callee, 
                            pcall, brokerIn, brokerClosed, dealerIn, 
                            dealerClosed, dealerAck, realmIn, realmClosed, 
                            realmAck, handlers, closeLock, realmShut, 
                            timerArmed, timerCanceled, closeCalled, 
                            closeReturned, brokerStopped, dealerStopped, 
                            realmStopped, panic, pending, me_, sent, stalls, 
                            me_H, msg, shut, act, todo, dact, ract, me >>

h1(self) == /\ pc[self] = "h1"
            /\ \/ /\ inbox[me_H[self]] # <<>>
                  /\ msg' = [msg EXCEPT ![self] = Head(inbox[me_H[self]])]
                  /\ inbox' = [inbox EXCEPT ![me_H[self]] = Tail(inbox[me_H[self]])]
                  /\ pc' = [pc EXCEPT ![self] = "h2"]
               \/ /\ recvDone[me_H[self]]
                  /\ pc' = [pc EXCEPT ![self] = "h5"]
                  /\ UNCHANGED <<inbox, msg>>
            /\ UNCHANGED << q, qclosed, stalled, got, dropped, recvDone, 
                            members, started, everJoined, shutSessions, subs, 
                            callee, pcall, brokerIn, brokerClosed, dealerIn, 
                            dealerClosed, dealerAck, realmIn, realmClosed, 
                            realmAck, handlers, closeLock, realmShut, 
                            timerArmed, timerCanceled, closeCalled, 
                            closeReturned, brokerStopped, dealerStopped, 
                            realmStopped, panic, pending, me_, sent, stalls, 
                            me_H, shut, act, todo, dact, ract, me >>

h2(self) == /\ pc[self] = "h2"
            /\ brokerIn = NULL
            /\ IF brokerClosed
                  THEN /\ panic' = "handler submits to closed broker"
                       /\ UNCHANGED brokerIn
                  ELSE /\ brokerIn' = [k |-> "pub", from |-> me_H[self], n |-> msg[self].n]
                       /\ panic' = panic
            /\ pc' = [pc EXCEPT ![self] = "h1"]
            /\ UNCHANGED << inbox, q, qclosed, stalled, got, dropped, recvDone, 
                            members, started, everJoined, shutSessions, subs, 
                            callee, pcall, brokerClosed, dealerIn, 
                            dealerClosed, dealerAck, realmIn, realmClosed, 
                            realmAck, handlers, closeLock, realmShut, 
                            timerArmed, timerCanceled, closeCalled, 
                            closeReturned, brokerStopped, dealerStopped, 
                            realmStopped, pending, me_, sent, stalls, me_H, 
                            msg, shut, act, todo, dact, ract, me >>

h5(self) == /\ pc[self] = "h5"
            /\ shut' = [shut EXCEPT ![self] = realmShut]
            /\ IF ~qclosed[me_H[self]] /\ TrySendOK(me_H[self])
                  THEN /\ q' = [q EXCEPT ![me_H[self]] = Append(q[me_H[self]], [k |-> "goodbye", from |-> me_H[self], n |-> 0])]
                  ELSE /\ TRUE
                       /\ q' = q
            /\ pc' = [pc EXCEPT ![self] = "h6"]
            /\ UNCHANGED << inbox, qclosed, stalled, got, dropped, recvDone, 
                            members, started, everJoined, shutSessions, subs, 
                            callee, pcall, brokerIn, brokerClosed, dealerIn, 
                            dealerClosed, dealerAck, realmIn, realmClosed, 
                            realmAck, handlers, closeLock, realmShut, 
                            timerArmed, timerCanceled, closeCalled, 
                            closeReturned, brokerStopped, dealerStopped, 
                            realmStopped, panic, pending, me_, sent, stalls, 
                            me_H, msg, act, todo, dact, ract, me >>

h6(self) == /\ pc[self] = "h6"
            /\ realmIn = NULL
            /\ realmIn' = [k |-> "leave", s |-> me_H[self], shutdown |-> shut[self]]
            /\ pc' = [pc EXCEPT ![self] = "h7"]
            /\ UNCHANGED << inbox, q, qclosed, stalled, got, dropped, recvDone, 
                            members, started, everJoined, shutSessions, subs, 
                            callee, pcall, brokerIn, brokerClosed, dealerIn, 
                            dealerClosed, dealerAck, realmClosed, realmAck, 
                            handlers, closeLock, realmShut, timerArmed, 
                            timerCanceled, closeCalled, closeReturned, 
                            brokerStopped, dealerStopped, realmStopped, panic, 
                            pending, me_, sent, stalls, me_H, msg, shut, act, 
                            todo, dact, ract, me >>

h7(self) == /\ pc[self] = "h7"
            /\ <<"H", me_H[self]>> \in realmAck
            /\ realmAck' = realmAck \ {<<"H", me_H[self]>>}
            /\ pc' = [pc EXCEPT ![self] = "h8"]
            /\ UNCHANGED << inbox, q, qclosed, stalled, got, dropped, recvDone, 
                            members, started, everJoined, shutSessions, subs, 
                            callee, pcall, brokerIn, brokerClosed, dealerIn, 
                            dealerClosed, dealerAck, realmIn, realmClosed, 
                            handlers, closeLock, realmShut, timerArmed, 
                            timerCanceled, closeCalled, closeReturned, 
                            brokerStopped, dealerStopped, realmStopped, panic, 
                            pending, me_, sent, stalls, me_H, msg, shut, act, 
                            todo, dact, ract, me >>

h8(self) == /\ pc[self] = "h8"
            /\ IF ~shut[self] \/ "DevCloseEarly" \in Deviations
                  THEN /\ IF qclosed[me_H[self]]
                             THEN /\ panic' = "close of closed channel"
                                  /\ UNCHANGED qclosed
                             ELSE /\ qclosed' = [qclosed EXCEPT ![me_H[self]] = TRUE]
                                  /\ panic' = panic
                  ELSE /\ TRUE
                       /\ UNCHANGED << qclosed, panic >>
            /\ pc' = [pc EXCEPT ![self] = "h9"]
            /\ UNCHANGED << inbox, q, stalled, got, dropped, recvDone, members, 
                            started, everJoined, shutSessions, subs, callee, 
                            pcall, brokerIn, brokerClosed, dealerIn, 
                            dealerClosed, dealerAck, realmIn, realmClosed, 
                            realmAck, handlers, closeLock, realmShut, 
                            timerArmed, timerCanceled, closeCalled, 
                            closeReturned, brokerStopped, dealerStopped, 
                            realmStopped, pending, me_, sent, stalls, me_H, 
                            msg, shut, act, todo, dact, ract, me >>

h9(self) == /\ pc[self] = "h9"
            /\ handlers' = handlers - 1
            /\ pc' = [pc EXCEPT ![self] = "Done"]
            /\ UNCHANGED << inbox, q, qclosed, stalled, got, dropped, recvDone, 
                            members, started, everJoined, shutSessions, subs, 
                            callee, pcall, brokerIn, brokerClosed, dealerIn, 
                            dealerClosed, dealerAck, realmIn, realmClosed, 
                            realmAck, closeLock, realmShut, timerArmed, 
                            timerCanceled, closeCalled, closeReturned, 
                            brokerStopped, dealerStopped, realmStopped, panic, 
                            pending, me_, sent, stalls, me_H, msg, shut, act, 
                            todo, dact, ract, me >>

H(self) == h0(self) \/ h1(self) \/ h2(self) \/ h5(self) \/ h6(self)
              \/ h7(self) \/ h8(self) \/ h9(self)

b0 == /\ pc[<<"B", "-">>] = "b0"
      /\ brokerIn # NULL \/ brokerClosed
      /\ IF brokerIn = NULL
            THEN /\ pc' = [pc EXCEPT ![<<"B", "-">>] = "bdone"]
            ELSE /\ pc' = [pc EXCEPT ![<<"B", "-">>] = "b1"]
      /\ UNCHANGED << inbox, q, qclosed, stalled, got, dropped, recvDone, 
                      members, started, everJoined, shutSessions, subs, callee, 
                      pcall, brokerIn, brokerClosed, dealerIn, dealerClosed, 
                      dealerAck, realmIn, realmClosed, realmAck, handlers, 
                      closeLock, realmShut, timerArmed, timerCanceled, 
                      closeCalled, closeReturned, brokerStopped, dealerStopped, 
                      realmStopped, panic, pending, me_, sent, stalls, me_H, 
                      msg, shut, act, todo, dact, ract, me >>

b1 == /\ pc[<<"B", "-">>] = "b1"
      /\ act' = brokerIn
      /\ brokerIn' = NULL
      /\ IF act'.k = "pub"
            THEN /\ IF "DevAsyncPublish" \in Deviations
                       THEN /\ pending' = (pending \cup {act'})
                            /\ pc' = [pc EXCEPT ![<<"B", "-">>] = "b0"]
                            /\ todo' = todo
                       ELSE /\ todo' = subs \ {act'.from}
                            /\ pc' = [pc EXCEPT ![<<"B", "-">>] = "b2"]
                            /\ UNCHANGED pending
                 /\ subs' = subs
            ELSE /\ IF act'.k = "remove"
                       THEN /\ subs' = subs \ {act'.s}
                       ELSE /\ TRUE
                            /\ subs' = subs
                 /\ pc' = [pc EXCEPT ![<<"B", "-">>] = "b0"]
                 /\ UNCHANGED << pending, todo >>
      /\ UNCHANGED << inbox, q, qclosed, stalled, got, dropped, recvDone, 
                      members, started, everJoined, shutSessions, callee, 
                      pcall, brokerClosed, dealerIn, dealerClosed, dealerAck, 
                      realmIn, realmClosed, realmAck, handlers, closeLock, 
                      realmShut, timerArmed, timerCanceled, closeCalled, 
                      closeReturned, brokerStopped, dealerStopped, 
                      realmStopped, panic, me_, sent, stalls, me_H, msg, shut, 
                      dact, ract, me >>

b2 == /\ pc[<<"B", "-">>] = "b2"
      /\ IF todo # {}
            THEN /\ \E s \in todo:
                      /\ IF "DevBlockingSend" \in Deviations
                            THEN /\ Len(q[s]) < QCap \/ qclosed[s]
                            ELSE /\ TRUE
                      /\ IF qclosed[s]
                            THEN /\ panic' = "send on closed channel"
                                 /\ UNCHANGED << q, dropped >>
                            ELSE /\ IF Len(q[s]) < QCap
                                       THEN /\ q' = [q EXCEPT ![s] = Append(q[s], ([k |-> "event", from |-> act.from, n |-> act.n]))]
                                            /\ UNCHANGED dropped
                                       ELSE /\ dropped' = [dropped EXCEPT ![s] = dropped[s] + 1]
                                            /\ q' = q
                                 /\ panic' = panic
                      /\ todo' = todo \ {s}
                 /\ pc' = [pc EXCEPT ![<<"B", "-">>] = "b2"]
            ELSE /\ pc' = [pc EXCEPT ![<<"B", "-">>] = "b0"]
                 /\ UNCHANGED << q, dropped, panic, todo >>
      /\ UNCHANGED << inbox, qclosed, stalled, got, recvDone, members, started, 
                      everJoined, shutSessions, subs, callee, pcall, brokerIn, 
                      brokerClosed, dealerIn, dealerClosed, dealerAck, realmIn, 
                      realmClosed, realmAck, handlers, closeLock, realmShut, 
                      timerArmed, timerCanceled, closeCalled, closeReturned, 
                      brokerStopped, dealerStopped, realmStopped, pending, me_, 
                      sent, stalls, me_H, msg, shut, act, dact, ract, me >>

bdone == /\ pc[<<"B", "-">>] = "bdone"
         /\ brokerStopped' = TRUE
         /\ pc' = [pc EXCEPT ![<<"B", "-">>] = "Done"]
         /\ UNCHANGED << inbox, q, qclosed, stalled, got, dropped, recvDone, 
                         members, started, everJoined, shutSessions, subs, 
                         callee, pcall, brokerIn, brokerClosed, dealerIn, 
                         dealerClosed, dealerAck, realmIn, realmClosed, 
                         realmAck, handlers, closeLock, realmShut, timerArmed, 
                         timerCanceled, closeCalled, closeReturned, 
                         dealerStopped, realmStopped, panic, pending, me_, 
                         sent, stalls, me_H, msg, shut, act, todo, dact, ract, 
                         me >>

B == b0 \/ b1 \/ b2 \/ bdone

p0 == /\ pc[<<"P", "-">>] = "p0"
      /\ pending # {}
      /\ \E a \in pending:
           /\ pending' = pending \ {a}
           /\ IF subs \ {a.from} # {}
                 THEN /\ \E s \in subs \ {a.from}:
                           IF qclosed[s]
                              THEN /\ panic' = "send on closed channel"
                                   /\ UNCHANGED << q, dropped >>
                              ELSE /\ IF Len(q[s]) < QCap
                                         THEN /\ q' = [q EXCEPT ![s] = Append(q[s], ([k |-> "event", from |-> a.from, n |-> a.n]))]
                                              /\ UNCHANGED dropped
                                         ELSE /\ dropped' = [dropped EXCEPT ![s] = dropped[s] + 1]
                                              /\ q' = q
                                   /\ panic' = panic
                 ELSE /\ TRUE
                      /\ UNCHANGED << q, dropped, panic >>
      /\ pc' = [pc EXCEPT ![<<"P", "-">>] = "p0"]
      /\ UNCHANGED << inbox, qclosed, stalled, got, recvDone, members, started, 
                      everJoined, shutSessions, subs, callee, pcall, brokerIn, 
                      brokerClosed, dealerIn, dealerClosed, dealerAck, realmIn, 
                      realmClosed, realmAck, handlers, closeLock, realmShut, 
                      timerArmed, timerCanceled, closeCalled, closeReturned, 
                      brokerStopped, dealerStopped, realmStopped, me_, sent, 
                      stalls, me_H, msg, shut, act, todo, dact, ract, me >>

P == p0

d0 == /\ pc[<<"D", "-">>] = "d0"
      /\ dealerIn # NULL \/ dealerClosed
      /\ IF dealerIn = NULL
            THEN /\ pc' = [pc EXCEPT ![<<"D", "-">>] = "ddone"]
            ELSE /\ pc' = [pc EXCEPT ![<<"D", "-">>] = "d1"]
      /\ UNCHANGED << inbox, q, qclosed, stalled, got, dropped, recvDone, 
                      members, started, everJoined, shutSessions, subs, callee, 
                      pcall, brokerIn, brokerClosed, dealerIn, dealerClosed, 
                      dealerAck, realmIn, realmClosed, realmAck, handlers, 
                      closeLock, realmShut, timerArmed, timerCanceled, 
                      closeCalled, closeReturned, brokerStopped, dealerStopped, 
                      realmStopped, panic, pending, me_, sent, stalls, me_H, 
                      msg, shut, act, todo, dact, ract, me >>

d1 == /\ pc[<<"D", "-">>] = "d1"
      /\ dact' = dealerIn
      /\ dealerIn' = NULL
      /\ IF dact'.k = "remove"
            THEN /\ IF callee = dact'.s
                       THEN /\ callee' = NOBODY
                       ELSE /\ TRUE
                            /\ UNCHANGED callee
                 /\ IF pcall # NULL /\ pcall.caller = dact'.s
                       THEN /\ pcall' = NULL
                            /\ timerCanceled' = TRUE
                       ELSE /\ TRUE
                            /\ UNCHANGED << pcall, timerCanceled >>
                 /\ dealerAck' = TRUE
                 /\ UNCHANGED << q, dropped, panic >>
            ELSE /\ IF dact'.k = "timeout"
                       THEN /\ IF pcall # NULL
                                  THEN /\ IF qclosed[(pcall.caller)]
                                             THEN /\ panic' = "send on closed channel"
                                                  /\ UNCHANGED << q, dropped >>
                                             ELSE /\ IF Len(q[(pcall.caller)]) < QCap
                                                        THEN /\ q' = [q EXCEPT ![(pcall.caller)] = Append(q[(pcall.caller)], ([k |-> "error", from |-> "D", n |-> 0]))]
                                                             /\ UNCHANGED dropped
                                                        ELSE /\ dropped' = [dropped EXCEPT ![(pcall.caller)] = dropped[(pcall.caller)] + 1]
                                                             /\ q' = q
                                                  /\ panic' = panic
                                       /\ pcall' = NULL
                                  ELSE /\ TRUE
                                       /\ UNCHANGED << q, dropped, pcall, 
                                                       panic >>
                            /\ UNCHANGED << dealerAck, timerCanceled >>
                       ELSE /\ IF dact'.k = "canceltimers"
                                  THEN /\ timerCanceled' = TRUE
                                       /\ dealerAck' = TRUE
                                  ELSE /\ TRUE
                                       /\ UNCHANGED << dealerAck, 
                                                       timerCanceled >>
                            /\ UNCHANGED << q, dropped, pcall, panic >>
                 /\ UNCHANGED callee
      /\ pc' = [pc EXCEPT ![<<"D", "-">>] = "d0"]
      /\ UNCHANGED << inbox, qclosed, stalled, got, recvDone, members, started, 
                      everJoined, shutSessions, subs, brokerIn, brokerClosed, 
                      dealerClosed, realmIn, realmClosed, realmAck, handlers, 
                      closeLock, realmShut, timerArmed, closeCalled, 
                      closeReturned, brokerStopped, dealerStopped, 
                      realmStopped, pending, me_, sent, stalls, me_H, msg, 
                      shut, act, todo, ract, me >>

ddone == /\ pc[<<"D", "-">>] = "ddone"
         /\ dealerStopped' = TRUE
         /\ pc' = [pc EXCEPT ![<<"D", "-">>] = "Done"]
         /\ UNCHANGED << inbox, q, qclosed, stalled, got, dropped, recvDone, 
                         members, started, everJoined, shutSessions, subs, 
                         callee, pcall, brokerIn, brokerClosed, dealerIn, 
                         dealerClosed, dealerAck, realmIn, realmClosed, 
                         realmAck, handlers, closeLock, realmShut, timerArmed, 
                         timerCanceled, closeCalled, closeReturned, 
                         brokerStopped, realmStopped, panic, pending, me_, 
                         sent, stalls, me_H, msg, shut, act, todo, dact, ract, 
                         me >>

D == d0 \/ d1 \/ ddone

t0 == /\ pc[<<"T", "-">>] = "t0"
      /\ timerArmed
      /\ pc' = [pc EXCEPT ![<<"T", "-">>] = "t1"]
      /\ UNCHANGED << inbox, q, qclosed, stalled, got, dropped, recvDone, 
                      members, started, everJoined, shutSessions, subs, callee, 
                      pcall, brokerIn, brokerClosed, dealerIn, dealerClosed, 
                      dealerAck, realmIn, realmClosed, realmAck, handlers, 
                      closeLock, realmShut, timerArmed, timerCanceled, 
                      closeCalled, closeReturned, brokerStopped, dealerStopped, 
                      realmStopped, panic, pending, me_, sent, stalls, me_H, 
                      msg, shut, act, todo, dact, ract, me >>

t1 == /\ pc[<<"T", "-">>] = "t1"
      /\ \/ /\ timerCanceled
            /\ pc' = [pc EXCEPT ![<<"T", "-">>] = "tdone"]
         \/ /\ TRUE
            /\ pc' = [pc EXCEPT ![<<"T", "-">>] = "t2"]
      /\ UNCHANGED << inbox, q, qclosed, stalled, got, dropped, recvDone, 
                      members, started, everJoined, shutSessions, subs, callee, 
                      pcall, brokerIn, brokerClosed, dealerIn, dealerClosed, 
                      dealerAck, realmIn, realmClosed, realmAck, handlers, 
                      closeLock, realmShut, timerArmed, timerCanceled, 
                      closeCalled, closeReturned, brokerStopped, dealerStopped, 
                      realmStopped, panic, pending, me_, sent, stalls, me_H, 
                      msg, shut, act, todo, dact, ract, me >>

t2 == /\ pc[<<"T", "-">>] = "t2"
      /\ IF dealerClosed
            THEN /\ IF "DevTimerAfterClose" \in Deviations
                       THEN /\ panic' = "timer submits to closed dealer"
                       ELSE /\ TRUE
                            /\ panic' = panic
                 /\ pc' = [pc EXCEPT ![<<"T", "-">>] = "tdone"]
                 /\ UNCHANGED dealerIn
            ELSE /\ dealerIn = NULL \/ dealerClosed
                 /\ IF dealerClosed
                       THEN /\ IF "DevTimerAfterClose" \in Deviations
                                  THEN /\ panic' = "timer submits to closed dealer"
                                  ELSE /\ TRUE
                                       /\ panic' = panic
                            /\ UNCHANGED dealerIn
                       ELSE /\ dealerIn' = [k |-> "timeout"]
                            /\ panic' = panic
                 /\ pc' = [pc EXCEPT ![<<"T", "-">>] = "tdone"]
      /\ UNCHANGED << inbox, q, qclosed, stalled, got, dropped, recvDone, 
                      members, started, everJoined, shutSessions, subs, callee, 
                      pcall, brokerIn, brokerClosed, dealerClosed, dealerAck, 
                      realmIn, realmClosed, realmAck, handlers, closeLock, 
                      realmShut, timerArmed, timerCanceled, closeCalled, 
                      closeReturned, brokerStopped, dealerStopped, 
                      realmStopped, pending, me_, sent, stalls, me_H, msg, 
                      shut, act, todo, dact, ract, me >>

tdone == /\ pc[<<"T", "-">>] = "tdone"
         /\ TRUE
         /\ pc' = [pc EXCEPT ![<<"T", "-">>] = "Done"]
         /\ UNCHANGED << inbox, q, qclosed, stalled, got, dropped, recvDone, 
                         members, started, everJoined, shutSessions, subs, 
                         callee, pcall, brokerIn, brokerClosed, dealerIn, 
                         dealerClosed, dealerAck, realmIn, realmClosed, 
                         realmAck, handlers, closeLock, realmShut, timerArmed, 
                         timerCanceled, closeCalled, closeReturned, 
                         brokerStopped, dealerStopped, realmStopped, panic, 
                         pending, me_, sent, stalls, me_H, msg, shut, act, 
                         todo, dact, ract, me >>

T == t0 \/ t1 \/ t2 \/ tdone

r0 == /\ pc[<<"R", "-">>] = "r0"
      /\ realmIn # NULL \/ realmClosed
      /\ IF realmIn = NULL
            THEN /\ pc' = [pc EXCEPT ![<<"R", "-">>] = "rdone"]
            ELSE /\ pc' = [pc EXCEPT ![<<"R", "-">>] = "r1"]
      /\ UNCHANGED << inbox, q, qclosed, stalled, got, dropped, recvDone, 
                      members, started, everJoined, shutSessions, subs, callee, 
                      pcall, brokerIn, brokerClosed, dealerIn, dealerClosed, 
                      dealerAck, realmIn, realmClosed, realmAck, handlers, 
                      closeLock, realmShut, timerArmed, timerCanceled, 
                      closeCalled, closeReturned, brokerStopped, dealerStopped, 
                      realmStopped, panic, pending, me_, sent, stalls, me_H, 
                      msg, shut, act, todo, dact, ract, me >>

r1 == /\ pc[<<"R", "-">>] = "r1"
      /\ ract' = realmIn
      /\ realmIn' = NULL
      /\ IF ract'.k = "leave"
            THEN /\ members' = members \ {ract'.s}
                 /\ IF ract'.shutdown
                       THEN /\ shutSessions' = (shutSessions \cup {ract'.s})
                       ELSE /\ TRUE
                            /\ UNCHANGED shutSessions
                 /\ IF ~ract'.shutdown
                       THEN /\ pc' = [pc EXCEPT ![<<"R", "-">>] = "r2"]
                       ELSE /\ pc' = [pc EXCEPT ![<<"R", "-">>] = "r5"]
                 /\ UNCHANGED << recvDone, everJoined, realmAck >>
            ELSE /\ IF ract'.k = "join"
                       THEN /\ members' = (members \cup {ract'.s})
                            /\ everJoined' = (everJoined \cup {ract'.s})
                            /\ realmAck' = (realmAck \cup {<<"A", ract'.s>>})
                            /\ UNCHANGED recvDone
                       ELSE /\ IF ract'.k = "endall"
                                  THEN /\ recvDone' = [s \in Sessions |-> recvDone[s] \/ s \in members]
                                       /\ realmAck' = (realmAck \cup {<<"C", "-">>})
                                  ELSE /\ TRUE
                                       /\ UNCHANGED << recvDone, realmAck >>
                            /\ UNCHANGED << members, everJoined >>
                 /\ pc' = [pc EXCEPT ![<<"R", "-">>] = "r0"]
                 /\ UNCHANGED shutSessions
      /\ UNCHANGED << inbox, q, qclosed, stalled, got, dropped, started, subs, 
                      callee, pcall, brokerIn, brokerClosed, dealerIn, 
                      dealerClosed, dealerAck, realmClosed, handlers, 
                      closeLock, realmShut, timerArmed, timerCanceled, 
                      closeCalled, closeReturned, brokerStopped, dealerStopped, 
                      realmStopped, panic, pending, me_, sent, stalls, me_H, 
                      msg, shut, act, todo, dact, me >>

r5 == /\ pc[<<"R", "-">>] = "r5"
      /\ realmAck' = (realmAck \cup {<<"H", ract.s>>})
      /\ pc' = [pc EXCEPT ![<<"R", "-">>] = "r0"]
      /\ UNCHANGED << inbox, q, qclosed, stalled, got, dropped, recvDone, 
                      members, started, everJoined, shutSessions, subs, callee, 
                      pcall, brokerIn, brokerClosed, dealerIn, dealerClosed, 
                      dealerAck, realmIn, realmClosed, handlers, closeLock, 
                      realmShut, timerArmed, timerCanceled, closeCalled, 
                      closeReturned, brokerStopped, dealerStopped, 
                      realmStopped, panic, pending, me_, sent, stalls, me_H, 
                      msg, shut, act, todo, dact, ract, me >>

r2 == /\ pc[<<"R", "-">>] = "r2"
      /\ brokerIn = NULL
      /\ IF brokerClosed
            THEN /\ panic' = "realm submits to closed broker"
                 /\ UNCHANGED brokerIn
            ELSE /\ brokerIn' = [k |-> "remove", s |-> ract.s]
                 /\ panic' = panic
      /\ pc' = [pc EXCEPT ![<<"R", "-">>] = "r3"]
      /\ UNCHANGED << inbox, q, qclosed, stalled, got, dropped, recvDone, 
                      members, started, everJoined, shutSessions, subs, callee, 
                      pcall, brokerClosed, dealerIn, dealerClosed, dealerAck, 
                      realmIn, realmClosed, realmAck, handlers, closeLock, 
                      realmShut, timerArmed, timerCanceled, closeCalled, 
                      closeReturned, brokerStopped, dealerStopped, 
                      realmStopped, pending, me_, sent, stalls, me_H, msg, 
                      shut, act, todo, dact, ract, me >>

r3 == /\ pc[<<"R", "-">>] = "r3"
      /\ dealerIn = NULL
      /\ IF dealerClosed
            THEN /\ panic' = "realm submits to closed dealer"
                 /\ UNCHANGED dealerIn
            ELSE /\ dealerIn' = [k |-> "remove", s |-> ract.s]
                 /\ panic' = panic
      /\ pc' = [pc EXCEPT ![<<"R", "-">>] = "r4"]
      /\ UNCHANGED << inbox, q, qclosed, stalled, got, dropped, recvDone, 
                      members, started, everJoined, shutSessions, subs, callee, 
                      pcall, brokerIn, brokerClosed, dealerClosed, dealerAck, 
                      realmIn, realmClosed, realmAck, handlers, closeLock, 
                      realmShut, timerArmed, timerCanceled, closeCalled, 
                      closeReturned, brokerStopped, dealerStopped, 
                      realmStopped, pending, me_, sent, stalls, me_H, msg, 
                      shut, act, todo, dact, ract, me >>

r4 == /\ pc[<<"R", "-">>] = "r4"
      /\ dealerAck
      /\ dealerAck' = FALSE
      /\ pc' = [pc EXCEPT ![<<"R", "-">>] = "r5"]
      /\ UNCHANGED << inbox, q, qclosed, stalled, got, dropped, recvDone, 
                      members, started, everJoined, shutSessions, subs, callee, 
                      pcall, brokerIn, brokerClosed, dealerIn, dealerClosed, 
                      realmIn, realmClosed, realmAck, handlers, closeLock, 
                      realmShut, timerArmed, timerCanceled, closeCalled, 
                      closeReturned, brokerStopped, dealerStopped, 
                      realmStopped, panic, pending, me_, sent, stalls, me_H, 
                      msg, shut, act, todo, dact, ract, me >>

rdone == /\ pc[<<"R", "-">>] = "rdone"
         /\ realmStopped' = TRUE
         /\ pc' = [pc EXCEPT ![<<"R", "-">>] = "Done"]
         /\ UNCHANGED << inbox, q, qclosed, stalled, got, dropped, recvDone, 
                         members, started, everJoined, shutSessions, subs, 
                         callee, pcall, brokerIn, brokerClosed, dealerIn, 
                         dealerClosed, dealerAck, realmIn, realmClosed, 
                         realmAck, handlers, closeLock, realmShut, timerArmed, 
                         timerCanceled, closeCalled, closeReturned, 
                         brokerStopped, dealerStopped, panic, pending, me_, 
                         sent, stalls, me_H, msg, shut, act, todo, dact, ract, 
                         me >>

R == r0 \/ r1 \/ r5 \/ r2 \/ r3 \/ r4 \/ rdone

a0(self) == /\ pc[self] = "a0"
            /\ IF closeReturned
                  THEN /\ pc' = [pc EXCEPT ![self] = "adone"]
                  ELSE /\ pc' = [pc EXCEPT ![self] = "a1"]
            /\ UNCHANGED << inbox, q, qclosed, stalled, got, dropped, recvDone, 
                            members, started, everJoined, shutSessions, subs, 
                            callee, pcall, brokerIn, brokerClosed, dealerIn, 
                            dealerClosed, dealerAck, realmIn, realmClosed, 
                            realmAck, handlers, closeLock, realmShut, 
                            timerArmed, timerCanceled, closeCalled, 
                            closeReturned, brokerStopped, dealerStopped, 
                            realmStopped, panic, pending, me_, sent, stalls, 
                            me_H, msg, shut, act, todo, dact, ract, me >>

a1(self) == /\ pc[self] = "a1"
            /\ ~closeLock
            /\ closeLock' = TRUE
            /\ pc' = [pc EXCEPT ![self] = "a2"]
            /\ UNCHANGED << inbox, q, qclosed, stalled, got, dropped, recvDone, 
                            members, started, everJoined, shutSessions, subs, 
                            callee, pcall, brokerIn, brokerClosed, dealerIn, 
                            dealerClosed, dealerAck, realmIn, realmClosed, 
                            realmAck, handlers, realmShut, timerArmed, 
                            timerCanceled, closeCalled, closeReturned, 
                            brokerStopped, dealerStopped, realmStopped, panic, 
                            pending, me_, sent, stalls, me_H, msg, shut, act, 
                            todo, dact, ract, me >>

a2(self) == /\ pc[self] = "a2"
            /\ IF realmShut
                  THEN /\ closeLock' = FALSE
                       /\ pc' = [pc EXCEPT ![self] = "adone"]
                       /\ UNCHANGED handlers
                  ELSE /\ handlers' = handlers + 1
                       /\ pc' = [pc EXCEPT ![self] = "a3"]
                       /\ UNCHANGED closeLock
            /\ UNCHANGED << inbox, q, qclosed, stalled, got, dropped, recvDone, 
                            members, started, everJoined, shutSessions, subs, 
                            callee, pcall, brokerIn, brokerClosed, dealerIn, 
                            dealerClosed, dealerAck, realmIn, realmClosed, 
                            realmAck, realmShut, timerArmed, timerCanceled, 
                            closeCalled, closeReturned, brokerStopped, 
                            dealerStopped, realmStopped, panic, pending, me_, 
                            sent, stalls, me_H, msg, shut, act, todo, dact, 
                            ract, me >>

a3(self) == /\ pc[self] = "a3"
            /\ realmIn = NULL
            /\ realmIn' = [k |-> "join", s |-> me[self]]
            /\ pc' = [pc EXCEPT ![self] = "a4"]
            /\ UNCHANGED << inbox, q, qclosed, stalled, got, dropped, recvDone, 
                            members, started, everJoined, shutSessions, subs, 
                            callee, pcall, brokerIn, brokerClosed, dealerIn, 
                            dealerClosed, dealerAck, realmClosed, realmAck, 
                            handlers, closeLock, realmShut, timerArmed, 
                            timerCanceled, closeCalled, closeReturned, 
                            brokerStopped, dealerStopped, realmStopped, panic, 
                            pending, me_, sent, stalls, me_H, msg, shut, act, 
                            todo, dact, ract, me >>

a4(self) == /\ pc[self] = "a4"
            /\ <<"A", me[self]>> \in realmAck
            /\ realmAck' = realmAck \ {<<"A", me[self]>>}
            /\ closeLock' = FALSE
            /\ IF "DevWelcomeAfterStart" \in Deviations
                  THEN /\ started' = (started \cup {me[self]})
                  ELSE /\ TRUE
                       /\ UNCHANGED started
            /\ pc' = [pc EXCEPT ![self] = "a5"]
            /\ UNCHANGED << inbox, q, qclosed, stalled, got, dropped, recvDone, 
                            members, everJoined, shutSessions, subs, callee, 
                            pcall, brokerIn, brokerClosed, dealerIn, 
                            dealerClosed, dealerAck, realmIn, realmClosed, 
                            handlers, realmShut, timerArmed, timerCanceled, 
                            closeCalled, closeReturned, brokerStopped, 
                            dealerStopped, realmStopped, panic, pending, me_, 
                            sent, stalls, me_H, msg, shut, act, todo, dact, 
                            ract, me >>

a5(self) == /\ pc[self] = "a5"
            /\ IF qclosed[me[self]]
                  THEN /\ panic' = "welcome on closed channel"
                       /\ q' = q
                  ELSE /\ Len(q[me[self]]) < QCap \/ qclosed[me[self]]
                       /\ IF ~qclosed[me[self]]
                             THEN /\ q' = [q EXCEPT ![me[self]] = Append(q[me[self]], [k |-> "welcome", from |-> me[self], n |-> 0])]
                             ELSE /\ TRUE
                                  /\ q' = q
                       /\ panic' = panic
            /\ pc' = [pc EXCEPT ![self] = "a6"]
            /\ UNCHANGED << inbox, qclosed, stalled, got, dropped, recvDone, 
                            members, started, everJoined, shutSessions, subs, 
                            callee, pcall, brokerIn, brokerClosed, dealerIn, 
                            dealerClosed, dealerAck, realmIn, realmClosed, 
                            realmAck, handlers, closeLock, realmShut, 
                            timerArmed, timerCanceled, closeCalled, 
                            closeReturned, brokerStopped, dealerStopped, 
                            realmStopped, pending, me_, sent, stalls, me_H, 
                            msg, shut, act, todo, dact, ract, me >>

a6(self) == /\ pc[self] = "a6"
            /\ started' = (started \cup {me[self]})
            /\ pc' = [pc EXCEPT ![self] = "adone"]
            /\ UNCHANGED << inbox, q, qclosed, stalled, got, dropped, recvDone, 
                            members, everJoined, shutSessions, subs, callee, 
                            pcall, brokerIn, brokerClosed, dealerIn, 
                            dealerClosed, dealerAck, realmIn, realmClosed, 
                            realmAck, handlers, closeLock, realmShut, 
                            timerArmed, timerCanceled, closeCalled, 
                            closeReturned, brokerStopped, dealerStopped, 
                            realmStopped, panic, pending, me_, sent, stalls, 
                            me_H, msg, shut, act, todo, dact, ract, me >>

adone(self) == /\ pc[self] = "adone"
               /\ TRUE
               /\ pc' = [pc EXCEPT ![self] = "Done"]
               /\ UNCHANGED << inbox, q, qclosed, stalled, got, dropped, 
                               recvDone, members, started, everJoined, 
                               shutSessions, subs, callee, pcall, brokerIn, 
                               brokerClosed, dealerIn, dealerClosed, dealerAck, 
                               realmIn, realmClosed, realmAck, handlers, 
                               closeLock, realmShut, timerArmed, timerCanceled, 
                               closeCalled, closeReturned, brokerStopped, 
                               dealerStopped, realmStopped, panic, pending, 
                               me_, sent, stalls, me_H, msg, shut, act, todo, 
                               dact, ract, me >>

A(self) == a0(self) \/ a1(self) \/ a2(self) \/ a3(self) \/ a4(self)
              \/ a5(self) \/ a6(self) \/ adone(self)

c0 == /\ pc[<<"C", "-">>] = "c0"
      /\ closeCalled' = TRUE
      /\ timerArmed' = TRUE
      /\ pc' = [pc EXCEPT ![<<"C", "-">>] = "c1"]
      /\ UNCHANGED << inbox, q, qclosed, stalled, got, dropped, recvDone, 
                      members, started, everJoined, shutSessions, subs, callee, 
                      pcall, brokerIn, brokerClosed, dealerIn, dealerClosed, 
                      dealerAck, realmIn, realmClosed, realmAck, handlers, 
                      closeLock, realmShut, timerCanceled, closeReturned, 
                      brokerStopped, dealerStopped, realmStopped, panic, 
                      pending, me_, sent, stalls, me_H, msg, shut, act, todo, 
                      dact, ract, me >>

c1 == /\ pc[<<"C", "-">>] = "c1"
      /\ ~closeLock
      /\ closeLock' = TRUE
      /\ realmShut' = TRUE
      /\ pc' = [pc EXCEPT ![<<"C", "-">>] = "c2"]
      /\ UNCHANGED << inbox, q, qclosed, stalled, got, dropped, recvDone, 
                      members, started, everJoined, shutSessions, subs, callee, 
                      pcall, brokerIn, brokerClosed, dealerIn, dealerClosed, 
                      dealerAck, realmIn, realmClosed, realmAck, handlers, 
                      timerArmed, timerCanceled, closeCalled, closeReturned, 
                      brokerStopped, dealerStopped, realmStopped, panic, 
                      pending, me_, sent, stalls, me_H, msg, shut, act, todo, 
                      dact, ract, me >>

c2 == /\ pc[<<"C", "-">>] = "c2"
      /\ realmIn = NULL
      /\ realmIn' = [k |-> "endall"]
      /\ pc' = [pc EXCEPT ![<<"C", "-">>] = "c3"]
      /\ UNCHANGED << inbox, q, qclosed, stalled, got, dropped, recvDone, 
                      members, started, everJoined, shutSessions, subs, callee, 
                      pcall, brokerIn, brokerClosed, dealerIn, dealerClosed, 
                      dealerAck, realmClosed, realmAck, handlers, closeLock, 
                      realmShut, timerArmed, timerCanceled, closeCalled, 
                      closeReturned, brokerStopped, dealerStopped, 
                      realmStopped, panic, pending, me_, sent, stalls, me_H, 
                      msg, shut, act, todo, dact, ract, me >>

c3 == /\ pc[<<"C", "-">>] = "c3"
      /\ <<"C", "-">> \in realmAck
      /\ realmAck' = realmAck \ {<<"C", "-">>}
      /\ pc' = [pc EXCEPT ![<<"C", "-">>] = "c4"]
      /\ UNCHANGED << inbox, q, qclosed, stalled, got, dropped, recvDone, 
                      members, started, everJoined, shutSessions, subs, callee, 
                      pcall, brokerIn, brokerClosed, dealerIn, dealerClosed, 
                      dealerAck, realmIn, realmClosed, handlers, closeLock, 
                      realmShut, timerArmed, timerCanceled, closeCalled, 
                      closeReturned, brokerStopped, dealerStopped, 
                      realmStopped, panic, pending, me_, sent, stalls, me_H, 
                      msg, shut, act, todo, dact, ract, me >>

c4 == /\ pc[<<"C", "-">>] = "c4"
      /\ handlers = 0
      /\ pc' = [pc EXCEPT ![<<"C", "-">>] = "c5"]
      /\ UNCHANGED << inbox, q, qclosed, stalled, got, dropped, recvDone, 
                      members, started, everJoined, shutSessions, subs, callee, 
                      pcall, brokerIn, brokerClosed, dealerIn, dealerClosed, 
                      dealerAck, realmIn, realmClosed, realmAck, handlers, 
                      closeLock, realmShut, timerArmed, timerCanceled, 
                      closeCalled, closeReturned, brokerStopped, dealerStopped, 
                      realmStopped, panic, pending, me_, sent, stalls, me_H, 
                      msg, shut, act, todo, dact, ract, me >>

c5 == /\ pc[<<"C", "-">>] = "c5"
      /\ dealerIn = NULL
      /\ dealerIn' = [k |-> "canceltimers"]
      /\ pc' = [pc EXCEPT ![<<"C", "-">>] = "c6"]
      /\ UNCHANGED << inbox, q, qclosed, stalled, got, dropped, recvDone, 
                      members, started, everJoined, shutSessions, subs, callee, 
                      pcall, brokerIn, brokerClosed, dealerClosed, dealerAck, 
                      realmIn, realmClosed, realmAck, handlers, closeLock, 
                      realmShut, timerArmed, timerCanceled, closeCalled, 
                      closeReturned, brokerStopped, dealerStopped, 
                      realmStopped, panic, pending, me_, sent, stalls, me_H, 
                      msg, shut, act, todo, dact, ract, me >>

c6 == /\ pc[<<"C", "-">>] = "c6"
      /\ dealerAck
      /\ dealerAck' = FALSE
      /\ pc' = [pc EXCEPT ![<<"C", "-">>] = "c7"]
      /\ UNCHANGED << inbox, q, qclosed, stalled, got, dropped, recvDone, 
                      members, started, everJoined, shutSessions, subs, callee, 
                      pcall, brokerIn, brokerClosed, dealerIn, dealerClosed, 
                      realmIn, realmClosed, realmAck, handlers, closeLock, 
                      realmShut, timerArmed, timerCanceled, closeCalled, 
                      closeReturned, brokerStopped, dealerStopped, 
                      realmStopped, panic, pending, me_, sent, stalls, me_H, 
                      msg, shut, act, todo, dact, ract, me >>

c7 == /\ pc[<<"C", "-">>] = "c7"
      /\ dealerClosed' = TRUE
      /\ pc' = [pc EXCEPT ![<<"C", "-">>] = "c7w"]
      /\ UNCHANGED << inbox, q, qclosed, stalled, got, dropped, recvDone, 
                      members, started, everJoined, shutSessions, subs, callee, 
                      pcall, brokerIn, brokerClosed, dealerIn, dealerAck, 
                      realmIn, realmClosed, realmAck, handlers, closeLock, 
                      realmShut, timerArmed, timerCanceled, closeCalled, 
                      closeReturned, brokerStopped, dealerStopped, 
                      realmStopped, panic, pending, me_, sent, stalls, me_H, 
                      msg, shut, act, todo, dact, ract, me >>

c7w == /\ pc[<<"C", "-">>] = "c7w"
       /\ dealerStopped
       /\ pc' = [pc EXCEPT ![<<"C", "-">>] = "c8"]
       /\ UNCHANGED << inbox, q, qclosed, stalled, got, dropped, recvDone, 
                       members, started, everJoined, shutSessions, subs, 
                       callee, pcall, brokerIn, brokerClosed, dealerIn, 
                       dealerClosed, dealerAck, realmIn, realmClosed, realmAck, 
                       handlers, closeLock, realmShut, timerArmed, 
                       timerCanceled, closeCalled, closeReturned, 
                       brokerStopped, dealerStopped, realmStopped, panic, 
                       pending, me_, sent, stalls, me_H, msg, shut, act, todo, 
                       dact, ract, me >>

c8 == /\ pc[<<"C", "-">>] = "c8"
      /\ brokerClosed' = TRUE
      /\ pc' = [pc EXCEPT ![<<"C", "-">>] = "c8w"]
      /\ UNCHANGED << inbox, q, qclosed, stalled, got, dropped, recvDone, 
                      members, started, everJoined, shutSessions, subs, callee, 
                      pcall, brokerIn, dealerIn, dealerClosed, dealerAck, 
                      realmIn, realmClosed, realmAck, handlers, closeLock, 
                      realmShut, timerArmed, timerCanceled, closeCalled, 
                      closeReturned, brokerStopped, dealerStopped, 
                      realmStopped, panic, pending, me_, sent, stalls, me_H, 
                      msg, shut, act, todo, dact, ract, me >>

c8w == /\ pc[<<"C", "-">>] = "c8w"
       /\ brokerStopped
       /\ pc' = [pc EXCEPT ![<<"C", "-">>] = "c8x"]
       /\ UNCHANGED << inbox, q, qclosed, stalled, got, dropped, recvDone, 
                       members, started, everJoined, shutSessions, subs, 
                       callee, pcall, brokerIn, brokerClosed, dealerIn, 
                       dealerClosed, dealerAck, realmIn, realmClosed, realmAck, 
                       handlers, closeLock, realmShut, timerArmed, 
                       timerCanceled, closeCalled, closeReturned, 
                       brokerStopped, dealerStopped, realmStopped, panic, 
                       pending, me_, sent, stalls, me_H, msg, shut, act, todo, 
                       dact, ract, me >>

c8x == /\ pc[<<"C", "-">>] = "c8x"
       /\ qclosed' = [s \in Sessions |-> qclosed[s] \/ s \in shutSessions]
       /\ pc' = [pc EXCEPT ![<<"C", "-">>] = "c9"]
       /\ UNCHANGED << inbox, q, stalled, got, dropped, recvDone, members, 
                       started, everJoined, shutSessions, subs, callee, pcall, 
                       brokerIn, brokerClosed, dealerIn, dealerClosed, 
                       dealerAck, realmIn, realmClosed, realmAck, handlers, 
                       closeLock, realmShut, timerArmed, timerCanceled, 
                       closeCalled, closeReturned, brokerStopped, 
                       dealerStopped, realmStopped, panic, pending, me_, sent, 
                       stalls, me_H, msg, shut, act, todo, dact, ract, me >>

c9 == /\ pc[<<"C", "-">>] = "c9"
      /\ realmClosed' = TRUE
      /\ pc' = [pc EXCEPT ![<<"C", "-">>] = "c9w"]
      /\ UNCHANGED << inbox, q, qclosed, stalled, got, dropped, recvDone, 
                      members, started, everJoined, shutSessions, subs, callee, 
                      pcall, brokerIn, brokerClosed, dealerIn, dealerClosed, 
                      dealerAck, realmIn, realmAck, handlers, closeLock, 
                      realmShut, timerArmed, timerCanceled, closeCalled, 
                      closeReturned, brokerStopped, dealerStopped, 
                      realmStopped, panic, pending, me_, sent, stalls, me_H, 
                      msg, shut, act, todo, dact, ract, me >>

c9w == /\ pc[<<"C", "-">>] = "c9w"
       /\ realmStopped
       /\ closeLock' = FALSE
       /\ pc' = [pc EXCEPT ![<<"C", "-">>] = "c10"]
       /\ UNCHANGED << inbox, q, qclosed, stalled, got, dropped, recvDone, 
                       members, started, everJoined, shutSessions, subs, 
                       callee, pcall, brokerIn, brokerClosed, dealerIn, 
                       dealerClosed, dealerAck, realmIn, realmClosed, realmAck, 
                       handlers, realmShut, timerArmed, timerCanceled, 
                       closeCalled, closeReturned, brokerStopped, 
                       dealerStopped, realmStopped, panic, pending, me_, sent, 
                       stalls, me_H, msg, shut, act, todo, dact, ract, me >>

c10 == /\ pc[<<"C", "-">>] = "c10"
       /\ closeReturned' = TRUE
       /\ pc' = [pc EXCEPT ![<<"C", "-">>] = "Done"]
       /\ UNCHANGED << inbox, q, qclosed, stalled, got, dropped, recvDone, 
                       members, started, everJoined, shutSessions, subs, 
                       callee, pcall, brokerIn, brokerClosed, dealerIn, 
                       dealerClosed, dealerAck, realmIn, realmClosed, realmAck, 
                       handlers, closeLock, realmShut, timerArmed, 
                       timerCanceled, closeCalled, brokerStopped, 
                       dealerStopped, realmStopped, panic, pending, me_, sent, 
                       stalls, me_H, msg, shut, act, todo, dact, ract, me >>

C == c0 \/ c1 \/ c2 \/ c3 \/ c4 \/ c5 \/ c6 \/ c7 \/ c7w \/ c8 \/ c8w
        \/ c8x \/ c9 \/ c9w \/ c10

Next == B \/ P \/ D \/ T \/ R \/ C
           \/ (\E self \in {<<"K", s>> : s \in Sessions}: K(self))
           \/ (\E self \in {<<"H", s>> : s \in Sessions}: H(self))
           \/ (\E self \in {<<"A", s>> : s \in Sessions}: A(self))

Spec == /\ Init /\ [][Next]_vars
        /\ \A self \in {<<"K", s>> : s \in Sessions} : WF_vars(K(self))
        /\ \A self \in {<<"H", s>> : s \in Sessions} : WF_vars(H(self))
        /\ WF_vars(B)
        /\ WF_vars(P)
        /\ WF_vars(D)
        /\ WF_vars(T)
        /\ WF_vars(R)
        /\ \A self \in {<<"A", s>> : s \in Sessions} : WF_vars(A(self))
        /\ WF_vars(C)

\* END TRANSLATION

\* ==========================================================================
NoPanic == panic = ""

\* C06: when Close has returned, no goroutine of the router is left
PB == <<"B", "-">>  PD == <<"D", "-">>  PR == <<"R", "-">>  PT == <<"T", "-">>
QuietAfterClose ==
  closeReturned => /\ pc[PB] = "Done" /\ pc[PD] = "Done" /\ pc[PR] = "Done"
                   /\ (pc[PT] \in {"t0", "tdone", "Done"} \/ timerCanceled)   \* a cancelled timer only has to return
                   /\ \A s \in Sessions : pc[<<"H", s>>] \in {"h0", "Done"} /\ (s \in started => pc[<<"H", s>>] = "Done")
                   /\ members = {}

\* C06: every attached client was told GOODBYE or had its transport closed
ToldOrClosed ==
  closeReturned => \A s \in everJoined : s \in started => qclosed[s]

\* C07: at most the configured queue is buffered for a client
Bounded == \A s \in Sessions : Len(q[s]) <= QCap

\* C08: events of one publisher reach each subscriber in publication order
Ordered == \A p, r \in Sessions : Increasing(FromTo(p, r))

\* C06/C07 (liveness, under the fairness of the processes): Close returns
CloseReturns == closeCalled ~> closeReturned

\* C07: the broker is never blocked by a client: whenever it holds an action it
\* finishes it (it returns to b0) whatever the clients do
BrokerNeverWedged == (pc[PB] = "b2") ~> (pc[PB] # "b2")
=============================================================================
