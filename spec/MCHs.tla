--------------------------------- MODULE MCHs ---------------------------------
(***************************************************************************)
(* Leg 1 of C09: every handshake a second peer can attempt after a first    *)
(* peer's handshake (whose transcript it may replay), against every         *)
(* combination of configured authenticators, local and remote.  The         *)
(* property is stated declaratively over *transcripts* (what the peer sent  *)
(* and what it was sent: CHALLENGE, WELCOME, ABORT), independently of the   *)
(* actions HelloFx / AuthFx of Core.                                        *)
(***************************************************************************)
EXTENDS Core

VARIABLES tr,      \* peer -> transcript [h, chal, resp, welcome, aborted, closed, late]
          steps

mvars == <<vars, tr, steps>>

Peers == {"p1", "p2"}
Users == <<[id |-> "alice", role |-> "user"], [id |-> "bob", role |-> "admin"]>>

H0 == [first |-> "HELLO", realm |-> "ok", roles |-> "ok", methods |-> <<>>, authid |-> "", smuggle |-> FALSE,
       color |-> "", feats |-> <<>>, local |-> FALSE, q |-> 0]
A0 == [kind |-> "", key |-> "", ch |-> ""]

MethodLists == {<<>>, <<"anonymous">>, <<"ticket">>, <<"wampcra">>, <<"cryptosign">>, <<"bogus", "wampcra">>, <<"#", "ticket">>,
                <<"cryptosign", "anonymous">>}
\* the first peer: an honest user (or somebody whose transcript is worth replaying)
Hellos1 == {[H0 EXCEPT !.methods = ml, !.authid = a] : ml \in {<<"ticket">>, <<"wampcra">>, <<"cryptosign">>, <<"anonymous">>}, a \in {"alice", "bob"}}
\* the second peer: anything
\* (at most one of first message / realm / roles is wrong at a time)
Shapes == {<<"HELLO", "ok", "ok">>, <<"SUBSCRIBE", "ok", "ok">>, <<"none", "ok", "ok">>, <<"HELLO", "missing", "ok">>, <<"HELLO", "ok", "unknown">>}
Hellos2 == {[H0 EXCEPT !.first = sh[1], !.realm = sh[2], !.roles = sh[3], !.methods = ml, !.authid = a, !.local = lo] :
              sh \in Shapes, ml \in MethodLists, a \in {"alice", "mallory", ""}, lo \in BOOLEAN}
Resps == {[kind |-> "sig", key |-> k, ch |-> c] : k \in {"alice", "bob"}, c \in {"", "p1", "p2"}}
         \cup {[A0 EXCEPT !.kind = "garbage"], [A0 EXCEPT !.kind = "other"]}

CONSTANT Small      \* TRUE: the two extreme authenticator sets only
AuthCfgs == {[anon |-> an, methods |-> ms, lauth |-> la, crtmo |-> 2000] :
               an \in BOOLEAN, la \in BOOLEAN,
               ms \in (IF Small THEN {<<"ticket", "wampcra", "cryptosign">>, <<>>}
                                ELSE {<<"ticket", "wampcra", "cryptosign">>, <<"wampcra">>, <<"cryptosign">>, <<"ticket">>, <<>>})}

NextSid == IF used.sid = {} THEN 1 ELSE (CHOOSE n \in used.sid : \A m \in used.sid : m <= n) + 1

T0 == [h |-> H0, said |-> FALSE, chal |-> "", resp |-> A0, answered |-> FALSE, welcome |-> {}, aborted |-> FALSE, closed |-> FALSE, late |-> FALSE]

\* what the peers were sent in this step
Observe(t) ==
  [p \in Peers |->
     LET q == IF p \in DOMAIN out' THEN out'[p] ELSE <<>>
         has(k) == \E j \in DOMAIN q : q[j].k = k
         t0 == t[p]
     IN [t0 EXCEPT !.chal    = IF has("CHALLENGE") THEN (CHOOSE m \in Rng(q) : m.k = "CHALLENGE").e ELSE @,
                   !.welcome = IF has("WELCOME") THEN (CHOOSE m \in Rng(q) : m.k = "WELCOME").d ELSE @,
                   !.aborted = @ \/ has("ABORT"),
                   !.closed  = @ \/ has("CLOSED"),
                   \* anything but CLOSED after the transport was closed, or anything after ABORT
                   !.late    = @ \/ (t0.closed /\ q # <<>>) \/ (t0.aborted /\ \E j \in DOMAIN q : q[j].k \notin {"CLOSED"})]]

Hello(p, h) ==
  /\ p \notin DOMAIN sess
  /\ Commit(HelloFx(Cur, p, h, NextSid))
  /\ tr' = Observe([tr EXCEPT ![p].h = h, ![p].said = TRUE])
Auth(p, a) ==
  /\ p \in Pending(Cur) /\ sess[p].hs.method # "nohello"
  /\ Commit(AuthFx(Cur, p, a, NextSid))
  /\ tr' = Observe([tr EXCEPT ![p].resp = a, ![p].answered = TRUE])
Tick(ms) == Commit(AdvanceFx(Cur, ms)) /\ tr' = Observe(tr)
Intrude(p) == p \in DOMAIN sess /\ sess[p].st = "rejected" /\ Commit(IntrudeFx(Cur, p)) /\ tr' = Observe(tr)
\* a session that was welcomed uses the realm (so that identity shown to others is exercised)
Use(p) == /\ p \in Joined(Cur)
          /\ LET i == [uri |-> U_session_list, id |-> 0, args |-> <<>>, uri2 |-> <<>>, o |-> [match |-> ""], tag |-> "", how |-> "", f |-> <<>>]
             IN Commit(MetaCallFx(Cur, p, 7, i, <<>>, 0))
          /\ tr' = Observe(tr)

\* the first peer's handshake runs first (honestly, badly, or is left unanswered), then
\* the second peer tries whatever it likes
Resps1 == {[kind |-> "sig", key |-> k, ch |-> ""] : k \in {"alice", "bob"}} \cup {[A0 EXCEPT !.kind = "garbage"]}
MCNext ==
  /\ steps < 6 /\ steps' = steps + 1
  /\ \/ \E h \in Hellos1 : Hello("p1", h)
     \/ ("p2" \notin DOMAIN sess /\ \E a \in Resps1 : Auth("p1", a))
     \/ ("p1" \in DOMAIN sess /\ \E h \in Hellos2 : Hello("p2", h))
     \/ \E a \in Resps : Auth("p2", a)
     \/ ("p2" \in DOMAIN sess /\ \E ms \in {1999, 2000, 5000} : Tick(ms))
     \/ Intrude("p2")
     \/ Use("p2")

MCInit == /\ \E ac \in AuthCfgs : InitWith([InitCfg EXCEPT !.users = Users, !.auth = ac])
          /\ tr = [p \in Peers |-> T0] /\ steps = 0
MCSpec == MCInit /\ [][MCNext]_mvars

\* ==========================================================================
\* C09, over transcripts
Configured(m) == (m = "anonymous" /\ cfg.auth.anon) \/ m \in Rng(cfg.auth.methods)
OfferedSet(h) == IF h.methods = <<>> THEN {"anonymous"} ELSE Rng(h.methods) \ {"", "#"}
IsUser(a)     == \E i \in DOMAIN cfg.users : cfg.users[i].id = a

\* WELCOME only after a HELLO naming an existing realm and a client role, accepted by a
\* configured authenticator for an offered method - challenge methods by a response
\* valid for the challenge issued in this very handshake
Justified(p) ==
  LET t == tr[p] h == t.h IN
  /\ t.said /\ h.first = "HELLO" /\ h.realm = "ok" /\ h.roles = "ok"
  /\ \/ h.local /\ ~cfg.auth.lauth
     \/ \E m \in OfferedSet(h) : Configured(m) /\
           \/ m = "anonymous" /\ t.chal = ""
           \/ /\ m # "anonymous" /\ t.chal = m /\ t.answered
              /\ t.resp.kind = "sig" /\ IsUser(h.authid) /\ t.resp.key = h.authid
              /\ (m = "ticket" \/ t.resp.ch \in {"", p})
C09_WelcomeOnlyIfJustified == \A p \in Peers : tr[p].welcome # {} => Justified(p)

\* attached iff welcomed; a peer that was turned away is in no table and is never sent anything again
C09_AttachedIffWelcomed == \A p \in Peers : (p \in DOMAIN sess /\ sess[p].st = "joined") => tr[p].welcome # {}
C09_RejectedInert ==
  \A p \in Peers : (p \in DOMAIN sess /\ sess[p].st = "rejected") =>
     /\ tr[p].welcome = {} /\ ~tr[p].late
     /\ \A k \in DOMAIN subs : p \notin subs[k].members
     /\ \A k \in DOMAIN regs : p \notin Rng(regs[k].callees)
C09_AbortedOrClosed ==
  \A p \in Peers : (p \in DOMAIN sess /\ sess[p].st = "rejected") => tr[p].closed

\* identity comes from the router and the authenticator
Pair(d, k) == CHOOSE x \in d : x[1] = k
C09_Identity ==
  \A p \in Peers : tr[p].welcome # {} =>
    LET d == tr[p].welcome
        h == tr[p].h
        method == Pair(d, "authmethod")[2]
    IN /\ Pair(d, "authprovider")[2] = "static"
       /\ method \in {"local", "anonymous", "ticket", "wampcra", "cryptosign"}
       /\ method = "local" => (h.local /\ ~cfg.auth.lauth /\ Pair(d, "authrole")[2] = "trusted")
       /\ method = "anonymous" => (Pair(d, "authrole")[2] = "anonymous" /\ Pair(d, "authid")[2] = "RANDOM")
       /\ method \in {"ticket", "wampcra", "cryptosign"} =>
             /\ Pair(d, "authid")[2] = h.authid /\ IsUser(h.authid)
             /\ Pair(d, "authrole")[2] = RoleOfUser(cfg, h.authid)
             /\ tr[p].chal = method
       \* ... and what the others are shown is what the peer itself was told
       /\ (p \in DOMAIN sess /\ sess[p].st = "joined") => IdentPairs(Cur, p) = d
=============================================================================
