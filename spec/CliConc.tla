------------------------------- MODULE CliConc -------------------------------
(***************************************************************************)
(* Leg 1 of C16 / C17: the goroutine skeleton of the client's reply         *)
(* hand-off.  Application goroutines (Api) register a reply channel, send   *)
(* their request and wait for the reply, their timer or Done; the receive   *)
(* goroutine (Run) looks up the channel of each incoming reply and hands    *)
(* the reply over by rendezvous; the router answers every request zero or   *)
(* more times in any order; Close says GOODBYE, waits a while, then forces  *)
(* the receive loop to end.  Every interleaving is explored, in particular  *)
(* a reply that is looked up just before its waiter gives up.               *)
(* DevStrandedReply = the code before the fix cf90737: the waiter does not  *)
(* tell Run that it stopped waiting.                                        *)
(***************************************************************************)
EXTENDS Integers, Sequences, FiniteSets, TLC

CONSTANTS NApi,            \* number of application goroutines
          NReplies,        \* how many times the router may answer one request
          CliDeviations

Ids == 1..NApi

(* --algorithm CliConc {
variables
  awaiting = {},                   \* request ids with a registered reply channel
  gone     = {},                   \* request ids whose waiter has stopped waiting
  offer    = [i \in Ids |-> 0],    \* the reply Run is handing over on the channel of request i (0 = none)
  inbox    = <<>>,                 \* router -> client, FIFO
  sent     = {},                   \* requests the router has received
  nrep     = [i \in Ids |-> 0],    \* replies sent so far per request
  result   = [i \in Ids |-> "none"],
  got      = [i \in Ids |-> <<>>],
  consumed = {},
  twice    = FALSE,                \* a reply was consumed twice
  done     = FALSE,                \* Done() is signalled
  recvDone = FALSE,                \* Close forced the receive loop to end
  closeRet = FALSE;

fair process (Api \in Ids) {
 a1: awaiting := awaiting \cup {self};
 a2: sent := sent \cup {self};
 a3: either { await offer[self] # 0;                       \* the reply arrives on my channel
              got[self] := <<self, offer[self]>>;
              twice := twice \/ (<<self, offer[self]>> \in consumed);
              consumed := consumed \cup {<<self, offer[self]>>};
              offer[self] := 0;
              result[self] := "reply" }
     or     { result[self] := "timeout" }                   \* the response timer fires (at any moment)
     or     { await done; result[self] := "notconn" };
 a4: awaiting := awaiting \ {self};
     if ("DevStrandedReply" \notin CliDeviations) { gone := gone \cup {self} };
 a5: skip;
}

fair process (Run = 0)
variable m = <<0, 0>>;
{
 r1: while (TRUE) {
       either { await inbox # <<>>; m := Head(inbox); inbox := Tail(inbox) }
       or     { await recvDone; goto r9 };
 r2:   if (m[1] = 0) { goto r9 }                             \* GOODBYE from the router
       else if (m[1] \in awaiting) {
         offer[m[1]] := m[2];
 r3:     either { await offer[m[1]] = 0 }                    \* the waiter took it
         or     { await m[1] \in gone; offer[m[1]] := 0 }    \* the waiter gave up meanwhile
       }
     };
 r9: done := TRUE;
}

process (Router = -1) {
 s1: while (TRUE) {
       with (i \in {x \in sent : nrep[x] < NReplies}) {
         nrep[i] := nrep[i] + 1;
         inbox := Append(inbox, <<i, nrep[i]>>)
       }
     }
}

fair process (Closer = -2) {
 c1: either { inbox := Append(inbox, <<0, 0>>) }             \* the router answers the GOODBYE ...
     or     { skip };                                        \* ... or does not
 c2: either { await done } or { skip };                      \* wait for Done at most for a while
 c3: if (~done) { recvDone := TRUE };
 c4: await done;
 c5: closeRet := TRUE;
}
} *)
\* BEGIN TRANSLATION
VARIABLES pc, awaiting, gone, offer, inbox, sent, nrep, result, got, consumed, 
          twice, done, recvDone, closeRet, m

vars == << pc, awaiting, gone, offer, inbox, sent, nrep, result, got, 
           consumed, twice, done, recvDone, closeRet, m >>

ProcSet == (Ids) \cup {0} \cup {-1} \cup {-2}

Init == (* Global variables *)
        /\ awaiting = {}
        /\ gone = {}
        /\ offer = [i \in Ids |-> 0]
        /\ inbox = <<>>
        /\ sent = {}
        /\ nrep = [i \in Ids |-> 0]
        /\ result = [i \in Ids |-> "none"]
        /\ got = [i \in Ids |-> <<>>]
        /\ consumed = {}
        /\ twice = FALSE
        /\ done = FALSE
        /\ recvDone = FALSE
        /\ closeRet = FALSE
        (* Process Run *)
        /\ m = <<0, 0>>
        /\ pc = [self \in ProcSet |-> CASE self \in Ids -> "a1"
                                        [] self = 0 -> "r1"
                                        [] self = -1 -> "s1"
                                        [] self = -2 -> "c1"]

a1(self) == /\ pc[self] = "a1"
            /\ awaiting' = (awaiting \cup {self})
            /\ pc' = [pc EXCEPT ![self] = "a2"]
            /\ UNCHANGED << gone, offer, inbox, sent, nrep, result, got, 
                            consumed, twice, done, recvDone, closeRet, m >>

a2(self) == /\ pc[self] = "a2"
            /\ sent' = (sent \cup {self})
            /\ pc' = [pc EXCEPT ![self] = "a3"]
            /\ UNCHANGED << awaiting, gone, offer, inbox, nrep, result, got, 
                            consumed, twice, done, recvDone, closeRet, m >>

a3(self) == /\ pc[self] = "a3"
            /\ \/ /\ offer[self] # 0
                  /\ got' = [got EXCEPT ![self] = <<self, offer[self]>>]
                  /\ twice' = (twice \/ (<<self, offer[self]>> \in consumed))
                  /\ consumed' = (consumed \cup {<<self, offer[self]>>})
                  /\ offer' = [offer EXCEPT ![self] = 0]
                  /\ result' = [result EXCEPT ![self] = "reply"]
               \/ /\ result' = [result EXCEPT ![self] = "timeout"]
                  /\ UNCHANGED <<offer, got, consumed, twice>>
               \/ /\ done
                  /\ result' = [result EXCEPT ![self] = "notconn"]
                  /\ UNCHANGED <<offer, got, consumed, twice>>
            /\ pc' = [pc EXCEPT ![self] = "a4"]
            /\ UNCHANGED << awaiting, gone, inbox, sent, nrep, done, recvDone, 
                            closeRet, m >>

a4(self) == /\ pc[self] = "a4"
            /\ awaiting' = awaiting \ {self}
            /\ IF "DevStrandedReply" \notin CliDeviations
                  THEN /\ gone' = (gone \cup {self})
                  ELSE /\ TRUE
                       /\ gone' = gone
            /\ pc' = [pc EXCEPT ![self] = "a5"]
            /\ UNCHANGED << offer, inbox, sent, nrep, result, got, consumed, 
                            twice, done, recvDone, closeRet, m >>

a5(self) == /\ pc[self] = "a5"
            /\ TRUE
            /\ pc' = [pc EXCEPT ![self] = "Done"]
            /\ UNCHANGED << awaiting, gone, offer, inbox, sent, nrep, result, 
                            got, consumed, twice, done, recvDone, closeRet, m >>

Api(self) == a1(self) \/ a2(self) \/ a3(self) \/ a4(self) \/ a5(self)

r1 == /\ pc[0] = "r1"
      /\ \/ /\ inbox # <<>>
            /\ m' = Head(inbox)
            /\ inbox' = Tail(inbox)
            /\ pc' = [pc EXCEPT ![0] = "r2"]
         \/ /\ recvDone
            /\ pc' = [pc EXCEPT ![0] = "r9"]
            /\ UNCHANGED <<inbox, m>>
      /\ UNCHANGED << awaiting, gone, offer, sent, nrep, result, got, consumed, 
                      twice, done, recvDone, closeRet >>

r2 == /\ pc[0] = "r2"
      /\ IF m[1] = 0
            THEN /\ pc' = [pc EXCEPT ![0] = "r9"]
                 /\ offer' = offer
            ELSE /\ IF m[1] \in awaiting
                       THEN /\ offer' = [offer EXCEPT ![m[1]] = m[2]]
                            /\ pc' = [pc EXCEPT ![0] = "r3"]
                       ELSE /\ pc' = [pc EXCEPT ![0] = "r1"]
                            /\ offer' = offer
      /\ UNCHANGED << awaiting, gone, inbox, sent, nrep, result, got, consumed, 
                      twice, done, recvDone, closeRet, m >>

r3 == /\ pc[0] = "r3"
      /\ \/ /\ offer[m[1]] = 0
            /\ offer' = offer
         \/ /\ m[1] \in gone
            /\ offer' = [offer EXCEPT ![m[1]] = 0]
      /\ pc' = [pc EXCEPT ![0] = "r1"]
      /\ UNCHANGED << awaiting, gone, inbox, sent, nrep, result, got, consumed, 
                      twice, done, recvDone, closeRet, m >>

r9 == /\ pc[0] = "r9"
      /\ done' = TRUE
      /\ pc' = [pc EXCEPT ![0] = "Done"]
      /\ UNCHANGED << awaiting, gone, offer, inbox, sent, nrep, result, got, 
                      consumed, twice, recvDone, closeRet, m >>

Run == r1 \/ r2 \/ r3 \/ r9

s1 == /\ pc[-1] = "s1"
      /\ \E i \in {x \in sent : nrep[x] < NReplies}:
           /\ nrep' = [nrep EXCEPT ![i] = nrep[i] + 1]
           /\ inbox' = Append(inbox, <<i, nrep'[i]>>)
      /\ pc' = [pc EXCEPT ![-1] = "s1"]
      /\ UNCHANGED << awaiting, gone, offer, sent, result, got, consumed, 
                      twice, done, recvDone, closeRet, m >>

Router == s1

c1 == /\ pc[-2] = "c1"
      /\ \/ /\ inbox' = Append(inbox, <<0, 0>>)
         \/ /\ TRUE
            /\ inbox' = inbox
      /\ pc' = [pc EXCEPT ![-2] = "c2"]
      /\ UNCHANGED << awaiting, gone, offer, sent, nrep, result, got, consumed, 
                      twice, done, recvDone, closeRet, m >>

c2 == /\ pc[-2] = "c2"
      /\ \/ /\ done
         \/ /\ TRUE
      /\ pc' = [pc EXCEPT ![-2] = "c3"]
      /\ UNCHANGED << awaiting, gone, offer, inbox, sent, nrep, result, got, 
                      consumed, twice, done, recvDone, closeRet, m >>

c3 == /\ pc[-2] = "c3"
      /\ IF ~done
            THEN /\ recvDone' = TRUE
            ELSE /\ TRUE
                 /\ UNCHANGED recvDone
      /\ pc' = [pc EXCEPT ![-2] = "c4"]
      /\ UNCHANGED << awaiting, gone, offer, inbox, sent, nrep, result, got, 
                      consumed, twice, done, closeRet, m >>

c4 == /\ pc[-2] = "c4"
      /\ done
      /\ pc' = [pc EXCEPT ![-2] = "c5"]
      /\ UNCHANGED << awaiting, gone, offer, inbox, sent, nrep, result, got, 
                      consumed, twice, done, recvDone, closeRet, m >>

c5 == /\ pc[-2] = "c5"
      /\ closeRet' = TRUE
      /\ pc' = [pc EXCEPT ![-2] = "Done"]
      /\ UNCHANGED << awaiting, gone, offer, inbox, sent, nrep, result, got, 
                      consumed, twice, done, recvDone, m >>

Closer == c1 \/ c2 \/ c3 \/ c4 \/ c5

Next == Run \/ Router \/ Closer
           \/ (\E self \in Ids: Api(self))

Spec == /\ Init /\ [][Next]_vars
        /\ \A self \in Ids : WF_vars(Api(self))
        /\ WF_vars(Run)
        /\ WF_vars(Closer)

\* END TRANSLATION

\* an application goroutine only ever gets a reply to its own request, each reply at most once
OwnReply    == \A i \in Ids : result[i] = "reply" => got[i][1] = i
AtMostOnce  == ~twice
NoLeftover  == (\A i \in Ids : pc[i] = "a5") => awaiting = {}

\* Close always returns, every API call returns, Run never stays stuck in a hand-over
CloseReturns == <>closeRet
ApisReturn   == \A i \in Ids : <>(pc[i] = "a5")
RunMovesOn   == [](pc[0] = "r3" => <>(pc[0] # "r3"))
=============================================================================
