-------------------------------- MODULE Trace --------------------------------
(***************************************************************************)
(* Trace validation for Core: a recorded execution of the real router      *)
(* (harness/exec.go) is accepted iff it is a behaviour of Core.  Each line  *)
(* of the trace is one input together with everything every peer received  *)
(* until quiescence; free choices of the implementation (ids, callee) are   *)
(* bound to the logged values and checked by the action's precondition.    *)
(* Many scenarios are concatenated; a "reset" line starts the next one.    *)
(***************************************************************************)
EXTENDS Core, Json

CONSTANTS TraceFile,   \* ndjson file written by the harness
          Classes,     \* message classes this check compares (projection pi_Cxx)
          Explain      \* TRUE: never reject, print expected vs. logged instead

VARIABLE l             \* index of the next trace line

tvars == <<vars, l>>

TraceLog == ndJsonDeserialize(TraceFile)

\* --------------------------------------------------------------------------
\* projection and comparison
Class(m) ==
  CASE m.k \in {"WELCOME", "GOODBYE", "ABORT", "CLOSED"} -> "sess"
    [] m.k \in {"SUBSCRIBED", "UNSUBSCRIBED", "PUBLISHED"} -> "pubsub"
    [] m.k = "EVENT" -> IF IsWampURI(m.v) THEN "meta" ELSE "pubsub"
    [] m.k = "ERROR" -> IF m.a \in {T_SUBSCRIBE, T_UNSUBSCRIBE, T_PUBLISH} THEN "pubsub"
                        ELSE IF m.a \in {T_CALL, T_CANCEL} THEN "rpcreply" ELSE "rpcroute"
    [] m.k = "RESULT" -> IF m.y = 1 THEN "metaapi" ELSE "rpcreply"
    [] m.k \in {"REGISTERED", "UNREGISTERED", "INVOCATION"} -> "rpcroute"
    [] m.k = "INTERRUPT" -> "rpcintr"
    [] OTHER -> "other"

\* a logged message as a spec message (lists of pairs become sets)
NormLog(m) == [m EXCEPT !.d = Rng(m.d), !.pd = Rng(m.pd), !.ids = Rng(m.ids)]

\* the `procedure' detail of an INVOCATION is compared for pattern-based
\* registrations only (the property speaks of nothing else)
ExactRegIds == {regs[k].id : k \in {kk \in DOMAIN regs : kk[2] = "exact"}}
\* identity details of EVENT / INVOCATION are compared by the checks that have
\* the class "details" (C12); the others only look at routing and payload
Canon(m) ==
  LET m1 == IF m.k = "INVOCATION" /\ m.a \in ExactRegIds THEN [m EXCEPT !.w = <<>>] ELSE m
  IN IF "details" \notin Classes /\ m.k \in {"EVENT", "INVOCATION"}
     THEN [m1 EXCEPT !.d = {p \in @ : p[1] \in {"receive_progress", "timeout", "progress", "ppt_scheme"}}] ELSE m1

Proj(q) == SelectSeq(q, LAMBDA m : Class(m) \in Classes \/ Class(m) = "other")

Count(q, m) == Cardinality({i \in DOMAIN q : q[i] = m})
BagEq(a, b) == Len(a) = Len(b) /\ \A m \in Rng(a) : Count(a, m) = Count(b, m)

SubBagOf(b, a) == \A m \in Rng(b) : Count(b, m) <= Count(a, m)
\* a reading session with a tiny queue may still lose messages of a step that
\* produces several at once (the router never waits for it): it receives a sub-bag
\* (any queue: a step that produces more messages for one session than its queue holds may lose the
\* surplus even though the session reads - whether its reader keeps up is a matter of scheduling)
SmallQueue(s) == s \in DOMAIN sess'

\* orders the properties state within one step (C18): m1 must precede m2
MetaOrder(m1, m2) ==
  /\ m1.k = "EVENT" /\ m2.k = "EVENT" /\ m1.y = m2.y /\ m1.y # 0
  /\ \/ m1.v = U_subscription_on_create      /\ m2.v = U_subscription_on_subscribe
     \/ m1.v = U_subscription_on_unsubscribe /\ m2.v = U_subscription_on_delete
     \/ m1.v = U_registration_on_create      /\ m2.v = U_registration_on_register
     \/ m1.v = U_registration_on_unregister  /\ m2.v = U_registration_on_delete
MustPrecede(m1, m2) ==
  \/ m2.k = "CLOSED" /\ m1.k # "CLOSED"        \* nothing arrives on a closed transport
  \/ MetaOrder(m1, m2)
NoInversion(q) == \A i, j \in DOMAIN q : i < j => ~MustPrecede(q[j], q[i])

LoggedFor(r, s) ==
  LET hit == {i \in DOMAIN r.out : r.out[i].s = s} IN
  IF hit = {} THEN <<>>
  ELSE LET q == r.out[CHOOSE i \in hit : TRUE].m IN [i \in DOMAIN q |-> Canon(NormLog(q[i]))]

SpecFor(o, s) == IF s \in DOMAIN o THEN [i \in DOMAIN o[s] |-> Canon(o[s][i])] ELSE <<>>

\* Sessions ending in the same step (multi-victim kills) end concurrently: what one
\* victim still receives about the others depends on the scheduler, so for them
\* only the session-control messages (GOODBYE, CLOSED) of that step are compared.
Leavers == {s \in DOMAIN sess : sess[s].st = "joined" /\ sess'[s].st = "gone"}
\* A session attached over a network transport cannot be told anything once it has hung up,
\* and what is still queued for it when the router closes the connection is discarded by the
\* transport: in the step in which such a session ends only its session-control messages are compared.
Wire(s) == "tr" \in DOMAIN sess[s].attrs /\ sess[s].attrs.tr # ""
ProjFor(s, q) ==
  IF s \in Leavers /\ (Cardinality(Leavers) > 1 \/ Wire(s))
  THEN SelectSeq(q, LAMBDA m : Class(m) = "sess" /\ "sess" \in Classes)
  ELSE Proj(q)

\* offenders of hostile scenarios (and their partners) join with the attribute
\* color = "tainted": what they receive is not observed (havoc confined to them)
Tainted(s) == s \in DOMAIN sess' /\ sess'[s].attrs.color = "tainted"

\* a peer the specification does not know as a session (its join was refused, or
\* overtaken by a shutdown) may be told ABORT and have its transport closed at any time
Stranger(s, r) == s \notin DOMAIN sess' /\ \A m \in Rng(LoggedFor(r, s)) : m.k \in {"ABORT", "CLOSED", "CHALLENGE"}

Matches(o, r) ==
  LET names == {s \in DOMAIN o \cup {r.out[i].s : i \in DOMAIN r.out} : ~Tainted(s) /\ ~Stranger(s, r)} IN
  \A s \in names :
     LET a == ProjFor(s, SpecFor(o, s))
         b == ProjFor(s, LoggedFor(r, s))
        \* (a tiny queue holds at least as many messages of one step as it has room for: the
        \* router never waits, but it does not discard what fits either)
     IN /\ IF SmallQueue(s) /\ Len(a) > sess'[s].cap THEN SubBagOf(b, a) /\ Len(b) >= sess'[s].cap ELSE BagEq(a, b)
        /\ NoInversion(b)

Check(o, r) ==
  IF Explain
  THEN Matches(o, r) \/ PrintT(<<"MISMATCH", ToJson(
           [line |-> l, scn |-> r.scn,
            expected |-> [s \in DOMAIN o |-> Proj(SpecFor(o, s))],
            logged   |-> [i \in DOMAIN r.out |-> [s |-> r.out[i].s, m |-> Proj(LoggedFor(r, r.out[i].s))]]])>>)
  ELSE Matches(o, r)

\* --------------------------------------------------------------------------
Live(s) == s \in DOMAIN sess /\ sess[s].st = "joined"

FreshIn(S) == (CHOOSE n \in 100001..100200 : n \notin S)
Pick(b, S) == IF b # 0 THEN b ELSE FreshIn(S)

\* a hostile message: nothing is asserted about its sender; senders whose
\* transport the router closed are gone; nobody else is affected
RECURSIVE HostileFx(_, _)
HostileFx(S, closed) ==
  IF closed = <<>> THEN S
  ELSE LET s == Head(closed) IN
       HostileFx(IF s \in Joined(S) THEN LeaveFx(S, s, "lost", "") ELSE S, Tail(closed))

ApplyAllowed(i, b) ==
  CASE i.op = "skip" -> Commit(Cur)
    [] i.op = "snap" -> Commit(Cur)
    [] i.op = "join" ->
         /\ i.s \notin DOMAIN sess
         /\ LET sid == Pick(b.sid, used.sid) IN
              sid \notin used.sid /\ Commit(JoinFx(Cur, i.s, i.join, sid))
    \* the handshake, message by message (C09)
    [] i.op = "hello" ->
         /\ i.s \notin DOMAIN sess
         /\ LET sid == Pick(b.sid, used.sid) IN
              sid \notin used.sid /\ Commit(HelloFx(Cur, i.s, i.hello, sid))
    [] i.op = "auth" ->
         /\ i.s \in Pending(Cur) /\ sess[i.s].hs.method # "nohello"
         /\ LET sid == Pick(b.sid, used.sid) IN
              sid \notin used.sid /\ Commit(AuthFx(Cur, i.s, i.resp, sid))
    [] i.op = "hsdrop"  -> i.s \in Pending(Cur) /\ Commit(HsDropFx(Cur, i.s))
    [] i.op = "intrude" -> i.s \in DOMAIN sess /\ sess[i.s].st = "rejected" /\ Commit(IntrudeFx(Cur, i.s))
    [] i.op = "subscribe" ->
         /\ Live(i.s)
         /\ LET id == Pick(b.sub, used.sub)
                k  == <<i.uri, NormMatch(i.o.match)>> IN
              /\ (k \notin DOMAIN subs => id \notin used.sub)
              /\ Commit(SubscribeFx(Cur, i.s, i.req, i.uri, i.o.match, id))
    [] i.op = "unsubscribe" -> Live(i.s) /\ Commit(UnsubscribeFx(Cur, i.s, i.req, i.id))
    [] i.op = "publish" ->
         /\ Live(i.s)
         /\ LET id == Pick(b.pub, used.pub) IN
              id \notin used.pub /\ Commit(PublishReqFx(Cur, i.s, i.req, i.uri, i.o, id, i.tag))
    [] i.op = "register" ->
         /\ Live(i.s)
         /\ LET id == Pick(b.reg, used.reg)
                k  == <<i.uri, NormMatch(i.o.match)>> IN
              /\ (k \notin DOMAIN regs => id \notin used.reg)
              /\ Commit(RegisterFx(Cur, i.s, i.req, i.uri, i.o, id))
    [] i.op = "unregister" -> Live(i.s) /\ Commit(UnregisterFx(Cur, i.s, i.req, i.id))
    [] i.op = "call" ->
         /\ Live(i.s)
         /\ IF InProgress(Cur, <<i.s, i.req>>)
            THEN Commit(ChunkFx(Cur, i.s, i.req, i.o, i.tag))
            ELSE IF ~InProgress(Cur, <<i.s, i.req>>) /\ BestRegs(Cur, i.uri) # {} /\ i.o.prog /\ ~Has(Cur, i.s, "caller:progressive_call_invocations")
            THEN \* using a feature it did not announce: ABORT, the session ends
                 Commit(LeaveFx(Cur, i.s, "violation", ""))
            ELSE IF BestRegs(Cur, i.uri) = {}
            THEN Commit(CallFx(Cur, i.s, i.req, i.uri, i.o, i.tag, <<>>, "", 0))
            ELSE \E k \in BestRegs(Cur, i.uri) : \E callee \in Eligible(regs[k]) :
                   /\ b.reg # 0 => regs[k].id = b.reg
                   /\ b.callee # "" => callee = b.callee
                   /\ LET inv == Pick(b.inv, used.inv[callee]) IN
                        /\ CallPre(Cur, i.s, i.req, i.uri, k, callee, inv)
                        /\ Commit(CallFx(Cur, i.s, i.req, i.uri, i.o, i.tag, k, callee, inv))
    [] i.op = "cancel"   -> Live(i.s) /\ Commit(CancelFx(Cur, i.s, i.req, i.o.mode))
    [] i.op = "yield"    -> Live(i.s) /\ Commit(YieldFx(Cur, i.s, i.id, i.o.prog, i.o.ppt, i.tag))
    [] i.op = "inverror" -> Live(i.s) /\ Commit(InvErrorFx(Cur, i.s, i.id, i.o.err, i.tag))
    \* (a session that had stopped reading when it was killed cannot know that it is gone: when its
    \* peer finally hangs up nothing more happens)
    [] i.op = "leave"    -> IF Live(i.s) THEN Commit(LeaveFx(Cur, i.s, i.how, "")) ELSE Commit(Cur)
    [] i.op = "advance"  -> Commit(AdvanceFx(Cur, i.ms))
    [] i.op = "stall"    -> Live(i.s) /\ Commit(StallFx(Cur, i.s))
    [] i.op = "resume"   -> Live(i.s) /\ Commit(ResumeFx(Cur, i.s))
    [] i.op \in {"rmrealm", "closerouter"} -> Commit([CloseRealmFx(Cur) EXCEPT !.cfg.closed = TRUE])
    [] i.op = "hostile"  -> Commit(HostileFx(Cur, b.closed))
    \* traffic among unobserved (tainted) sessions that the specification does not model
    [] i.op = "pci"      -> Commit(HostileFx(Cur, b.closed))
    [] i.op = "metacall" ->
         /\ Live(i.s)
         /\ \E pick \in (IF b.reg # 0 THEN {b.reg} ELSE {regs[k].id : k \in BestRegs(Cur, i.uri2)} \cup {0}) :
              /\ MetaPre(Cur, i, pick)
              /\ Commit(MetaCallFx(Cur, i.s, i.req, i, b.hp, pick))


Apply(i, b) ==
  IF MsgType(i) = "" \/ ~Live(i.s) THEN ApplyAllowed(i, b)
  ELSE LET dec == Decision(Cur, i.s, MsgType(i)) IN
       CASE dec = "allow"   -> ApplyAllowed(i, b)
         [] dec = "rewrite" -> ApplyAllowed([i EXCEPT !.tag = "rw"], b)     \* acted upon in the form the authorizer left it
         [] OTHER           -> Commit(RefuseFx(Cur, i.s, TypeCode(MsgType(i)), IF i.op \in {"yield"} THEN i.id ELSE i.req, dec,
                                               SilentRefusal(i)))

\* --------------------------------------------------------------------------
IsEvent(e) == l <= Len(TraceLog) /\ TraceLog[l].ev = e /\ l' = l + 1

TrReset == /\ IsEvent("reset")
           /\ Commit([StateOf(TraceLog[l].cfg) EXCEPT !.now = TraceLog[l].now])   \* realms may be created at any time

\* C05: the verif snapshot (table sizes relative to the sizes right after router
\* start, router goroutines relative to the count right after start) against
\* the specification's tables.  At idle everything must be back at the baseline.
SnapOf(r, key) == LET hit == {i \in DOMAIN r.snap : r.snap[i].k = key} IN
                  IF hit = {} THEN -1 ELSE r.snap[CHOOSE i \in hit : TRUE].n
SnapOK(r) ==
  r.in.op = "snap" =>
   IF cfg.closed THEN r.gor = 0            \* after Close no goroutine of the router is left (C06)
   ELSE
    /\ SnapOf(r, "unavailable") = -1
    /\ SnapOf(r, "realm.clients") = Cardinality(Joined(Cur))
    /\ (Joined(Cur) = {} /\ DOMAIN calls = {}) =>
          /\ \A i \in DOMAIN r.snap : r.snap[i].n = 0
          /\ r.gor = 0

\* C06: closing the router / removing the realm, possibly while an input is in flight.
\* The sessions end concurrently and what a concurrent input still achieves is the
\* scheduler's choice, so the other outputs of the step are not predicted; required
\* is what the property states:
\* the call returned, and every attached session was told GOODBYE
\* wamp.close.system_shutdown or had its transport closed (nothing after that).
ToldShutdown(q) == \E j \in DOMAIN q : q[j].k = "CLOSED" \/ (q[j].k = "GOODBYE" /\ q[j].e = SystemShutdown)
TrShutdown ==
  /\ IsEvent("step")
  /\ LET r == TraceLog[l] IN
       /\ r.in.op \in {"closerouter", "rmrealm"}
       /\ r.ret
       /\ \A s \in Joined(Cur) : sess[s].attrs.color = "tainted"     \* (what unobserved sessions receive is not logged,
                                \/ sess[s].stalled                    \*  nor what a session that does not read is sent)
                                \/ (ToldShutdown(LoggedFor(r, s)) /\ NoInversion(LoggedFor(r, s)))
       /\ Commit([CloseRealmFx(Cur) EXCEPT !.cfg.closed = TRUE, !.em = <<>>])

\* after the realm is closed nobody can join it any more: an attach attempt ends
\* with an error or ABORT, never with WELCOME
TrJoinClosed ==
  /\ IsEvent("step")
  /\ LET r == TraceLog[l] IN
       /\ r.in.op = "join" /\ cfg.closed
       /\ \A i \in DOMAIN r.out : \A j \in DOMAIN r.out[i].m : r.out[i].m[j].k \in {"ABORT", "CLOSED"}
       /\ Commit(Cur)

\* --------------------------------------------------------------------------
\* C07 / C08: a burst - several sessions send their programs concurrently.
\* The scheduler decides the interleaving; every possible outcome must satisfy
\* the per-peer orders of C08, and for bursts of publications (which do not
\* change the routing tables) every reading session must have received exactly
\* the events Core.tla predicts, in full, at once (C07).
\* ids chosen during the burst are not compared (no order of the publications is assumed)
Blur(m) == m

\* the orders C08 states, over what one session received (q), given what it held before
OrdRel(q) ==
  /\ \A i, j \in DOMAIN q : i < j =>
        \* events of one publisher on one topic via one subscription: publication order
        /\ (q[i].k = "EVENT" /\ q[j].k = "EVENT" /\ q[i].a = q[j].a /\ q[i].y = q[j].y /\ q[i].y # 0 /\ q[i].v = q[j].v)
              => q[i].x < q[j].x
        \* calls of one caller arrive at the callee in call order
        /\ (q[i].k = "INVOCATION" /\ q[j].k = "INVOCATION" /\ q[i].y = q[j].y /\ q[i].y # 0)
              => q[i].x < q[j].x
        \* progressive results in yield order, nothing after the final one
        /\ (q[i].k = "RESULT" /\ q[j].k = "RESULT" /\ q[i].req = q[j].req)
              => (<<"progress", "true">> \in q[i].d /\ q[i].x < q[j].x)
OrdHeld(q, heldSubs, heldRegs) ==
  /\ \A i \in DOMAIN q :
        \* an EVENT only while the subscription is held: after SUBSCRIBED, not after UNSUBSCRIBED
        /\ (q[i].k = "EVENT" /\ ~IsWampURI(q[i].v)) =>
              LET ctl == {h \in 1..(i-1) : (q[h].k = "SUBSCRIBED" /\ q[h].a = q[i].a) \/ (q[h].k = "UNSUBSCRIBED" /\ q[h].y = q[i].a)}
              IN IF ctl = {} THEN q[i].a \in heldSubs
                 ELSE q[CHOOSE h \in ctl : \A h2 \in ctl : h2 <= h].k = "SUBSCRIBED"
        /\ q[i].k = "INVOCATION" =>
              LET ctl == {h \in 1..(i-1) : (q[h].k = "REGISTERED" /\ q[h].a = q[i].a) \/ (q[h].k = "UNREGISTERED" /\ q[h].y = q[i].a)}
              IN IF ctl = {} THEN q[i].a \in heldRegs
                 ELSE q[CHOOSE h \in ctl : \A h2 \in ctl : h2 <= h].k = "REGISTERED"

OrdOK(q, heldSubs, heldRegs) == OrdRel(q) /\ OrdHeld(q, heldSubs, heldRegs)

HeldSubs(s) == {subs[k].id : k \in {kk \in DOMAIN subs : s \in subs[kk].members}}
HeldRegs(s) == {regs[k].id : k \in {kk \in DOMAIN regs : s \in Rng(regs[kk].callees)}}

TrBurst ==
  /\ IsEvent("step")
  /\ LET r == TraceLog[l] IN
       /\ r.in.op = "burst"
       /\ now' = r.now
       \* (a session whose queue is smaller than a burst may lose a SUBSCRIBED or REGISTERED of the burst itself:
       \* for it only the relative orders of what did arrive are decided)
       /\ \A s \in DOMAIN sess : IF sess[s].cap < 8 THEN OrdRel(LoggedFor(r, s)) ELSE OrdOK(LoggedFor(r, s), HeldSubs(s), HeldRegs(s))
       /\ IF r.in.how = "pub"
          THEN LET S1 == PubAllFx(Cur, FlatProg(r.in.prog, 1))
                   o  == Deliver(Settle(S1))
                   several == Cardinality({r.in.prog[j].s : j \in DOMAIN r.in.prog}) > 1
               IN /\ IF several THEN CommitAll(S1) ELSE Commit(S1)
                  /\ Explain \/ \A s \in DOMAIN o :
                        LET a == [i \in DOMAIN o[s] |-> Blur(Canon(o[s][i]))]
                            q == LoggedFor(r, s)
                            b == [i \in DOMAIN q |-> Blur(q[i])]
                        IN IF s \in DOMAIN sess /\ sess[s].stalled THEN b = <<>>       \* a session that does not read gets nothing now
                           ELSE IF s \in DOMAIN sess /\ Len(Proj(a)) > sess[s].cap
                           THEN SubBagOf(Proj(b), Proj(a)) /\ Len(Proj(b)) >= sess[s].cap   \* tiny queue: may lose part of a burst
                           ELSE BagEq(Proj(a), Proj(b))                                \* everybody else: complete (C07)
          ELSE IF r.in.how = "slow"
          THEN \* a caller that does not read for three seconds: every progressive result and the
               \* final one still arrive, in yield order (the retry path of C07 must not reorder, C08)
               LET q == SelectSeq(LoggedFor(r, "zc"), LAMBDA m : m.k = "RESULT") IN
               /\ Commit([Cur EXCEPT !.now = r.now])
               /\ Len(q) = r.in.id + 1
               /\ \A j \in DOMAIN q : q[j].x = j
               /\ (l + 1 > Len(TraceLog) \/ TraceLog[l + 1].ev = "reset")
          ELSE \* mixed burst: only the orders are decided; the scenario ends here (with a sign of life).
               \* (Time may have passed: a call of the burst that reached a callee which does not answer.)
               /\ Commit([Cur EXCEPT !.now = r.now])
               /\ (l + 1 > Len(TraceLog) \/ TraceLog[l + 1].ev = "reset" \/ TraceLog[l + 1].in.op = "alive")

\* C07: whatever the concurrent programs did, the router still serves: a session that
\* joins afterwards is welcomed and its meta call answered
TrAlive ==
  /\ IsEvent("step")
  /\ LET r == TraceLog[l]
         q == LoggedFor(r, "zz") IN
       /\ r.in.op = "alive"
       /\ \E j \in DOMAIN q : q[j].k = "WELCOME"
       /\ \E j \in DOMAIN q : q[j].k = "RESULT" /\ q[j].req = 1
       /\ Commit(Cur)
       /\ (l + 1 > Len(TraceLog) \/ TraceLog[l + 1].ev = "reset")

TrStep == /\ IsEvent("step")
          /\ LET r == TraceLog[l] IN
               /\ r.in.op \notin {"closerouter", "rmrealm", "burst", "alive"}
               /\ ~(r.in.op = "join" /\ cfg.closed)
               /\ Apply(r.in, r.bind)
               /\ "snap" \notin Classes \/ SnapOK(r)
                  \/ (Explain /\ PrintT(<<"MISMATCH", ToJson([line |-> l, scn |-> r.scn, snapshot |-> r.snap, gor |-> r.gor,
                                                               joined |-> Cardinality(Joined(Cur)), expected |-> <<>>, logged |-> <<>>])>>))
               /\ now' = r.now            \* the virtual clock is part of the observation
               /\ r.badids = 0            \* every id seen so far lies in [1, 2^53] (C19)
               /\ Check(out', r)

TraceInit == l = 1 /\ InitWith(InitCfg)
TraceNext == TrReset \/ TrStep \/ TrShutdown \/ TrJoinClosed \/ TrBurst \/ TrAlive
TraceSpec == TraceInit /\ [][TraceNext]_tvars

\* accepted iff every line was consumed (no silent steps: one state per line)
TraceAccepted == TLCGet("stats").diameter - 1 = Len(TraceLog)
=============================================================================
