-------------------------------- MODULE IDs --------------------------------
(***************************************************************************)
(* WAMP ids.  TLC integers are 32 bit and the id range ends at 2^53, so an  *)
(* id is written symbolically as <<base, off>> = base + off with            *)
(* base \in {"ZERO", "MAX"} (MAX = 2^53) and a small offset (|off| < 2^20). *)
(* All comparisons and the wrap-around arithmetic are exact under that      *)
(* bound.  Reference for the vectors of C19 and for the id checks of the    *)
(* client specification (C16).                                              *)
(***************************************************************************)
EXTENDS Integers

Window == 500                         \* allowed wrap-around distance

Z(o) == <<"ZERO", o>>
M(o) == <<"MAX", o>>

\* Two more bases classify the values that are far from both ends (the harness
\* uses them for ids it did not choose): "MID" = somewhere strictly between
\* 2^20 and 2^53 - 2^20, "OVER" = above 2^53 + 2^20 (including what a negative
\* number becomes as an unsigned 64 bit value).
Rank(b) == CASE b = "ZERO" -> 0 [] b = "MID" -> 1 [] b = "MAX" -> 2 [] OTHER -> 3

\* a < b on symbolic ids (two MID / two OVER values are not comparable: not used)
Less(a, b) == IF a[1] = b[1] THEN a[2] < b[2] ELSE Rank(a[1]) < Rank(b[1])

InRange(a) == CASE a[1] = "ZERO" -> a[2] >= 1                    \* 1 <= a <= 2^53
                [] a[1] = "MAX"  -> a[2] <= 0
                [] a[1] = "MID"  -> TRUE
                [] OTHER         -> FALSE

\* ids issued within a session: 1, 2, ... 2^53, 1, ...   (g = the last id issued, 0 at start)
NextID(g) == IF g = M(0) THEN Z(1) ELSE <<g[1], g[2] + 1>>

\* distance from `last' forward to `id' across the wrap (2^53 -> 1), for id < last:
\* (MAX - last) + id; representable only when last is MAX-based and id ZERO-based
\* (otherwise it is of the order of 2^53, i.e. never inside the window)
InWindow(last, id) ==
  /\ last[1] = "MAX" /\ id[1] = "ZERO"
  /\ (0 - last[2]) + id[2] < Window

\* a received request id is new iff it is a valid id and it is larger than the
\* last one, or lies within the wrap-around window behind it (last = 0: none seen yet)
IsNew(last, id) ==
  /\ InRange(id)
  /\ \/ last = Z(0)
     \/ Less(last, id)
     \/ (Less(id, last) /\ InWindow(last, id))
=============================================================================
