------------------------------- MODULE TraceCli -------------------------------
(***************************************************************************)
(* Trace validation for Cli: a recorded execution of the real client        *)
(* (harness/client_test.go: the harness plays the router on the other end   *)
(* of a linked peer) is accepted iff it is a behaviour of Cli.              *)
(***************************************************************************)
EXTENDS Cli, Json

CONSTANTS TraceFile, Explain

VARIABLE l
tvars == <<cvars, l>>

TraceLog == ndJsonDeserialize(TraceFile)

Count(q, m) == Cardinality({i \in DOMAIN q : q[i] = m})
BagEq(a, b) == Len(a) = Len(b) /\ \A m \in Rng(a) : Count(a, m) = Count(b, m)

\* ids >= 5000 belong to hostile messages: what the client does about those is not compared
HostileId(n) == n >= 5000

FilterEmit(q) == SelectSeq(q, LAMBDA e : ~HostileId(e.req))
\* ... as is whatever the client answers to a hostile INVOCATION under that invocation's own id
FilterEmitH(q, inv) == SelectSeq(FilterEmit(q), LAMBDA e : ~(inv # 0 /\ e.req = inv /\ e.k \in {"YIELD", "ERROR"}))
FilterCb(q, hostileStep, disconnected) ==
  SelectSeq(q, LAMBDA e : /\ ~hostileStep /\ ~HostileId(e.a)
                          \* whether handlers still running see their context cancelled when the connection ends is not stated
                          /\ ~(disconnected /\ e.k = "invctx"))

\* progress callbacks of one call arrive in the order the router sent them
ProgOrdered(q) == \A i, j \in DOMAIN q : (i < j /\ q[i].k = "prog" /\ q[j].k = "prog" /\ q[i].a = q[j].a) => q[i].b < q[j].b

\* in a hostile step only *who* returned is compared, not with what
WhoOnly(q) == [i \in DOMAIN q |-> [g |-> q[i].g]]

Matches(o, r) ==
  LET hostile == r.in.op = "hostile"
      disc    == ~conn'
  IN /\ IF hostile THEN BagEq(WhoOnly(o.ret), WhoOnly(r.ret)) ELSE BagEq(o.ret, r.ret)
     /\ IF hostile THEN BagEq(FilterEmitH(o.emit, r.in.inv), FilterEmitH(r.emit, r.in.inv))
                   ELSE BagEq(FilterEmit(o.emit), FilterEmit(r.emit))
     /\ BagEq(FilterCb(o.cb, hostile, disc), FilterCb(r.cb, hostile, disc))
     /\ ProgOrdered(r.cb)
     /\ o.done = r.done
     /\ o.closeret = r.closeret

Check(o, r) ==
  IF Explain
  THEN Matches(o, r) \/ PrintT(<<"MISMATCH", ToJson([line |-> l, scn |-> r.scn, expected |-> o,
                                                     logged |-> [ret |-> r.ret, emit |-> r.emit, cb |-> r.cb, done |-> r.done, closeret |-> r.closeret]])>>)
  ELSE Matches(o, r)

IsEvent(e) == l <= Len(TraceLog) /\ TraceLog[l].ev = e /\ l' = l + 1

TrReset == IsEvent("reset") /\ CResetTo(TraceLog[l].rt)

Apply(i) ==
  CASE i.op = "skip"    -> CCommit(CCur)
    [] i.op = "api"     -> ~Busy(CCur, i.g) /\ CCommit(IF i.kind = "callp" THEN CallProgFx(CCur, i.g, i.name, i.prog, i.tmo, i.a, i.how)
                                                            ELSE ApiFx(CCur, i.g, i.kind, i.name, i.prog, i.tmo))
    [] i.op = "reply"   -> CCommit(ReplyFx(CCur, i.id, i.mk, i.a))
    [] i.op = "sched"   -> CCommit(ScheduleFx(CCur, i.id, i.mk, i.a, i.ms))
    [] i.op = "advance" -> \E win \in SUBSET ({sched[j].id : j \in DOMAIN sched} \cup {-1}), ord \in {"lo", "hi"} : CCommit(CAdvanceWinFx(CCur, i.ms, win, ord))
    [] i.op = "cancel"  -> CCommit(CancelCtxFx(CCur, i.g, IF i.mode = "" THEN "killnowait" ELSE i.mode))
    [] i.op = "inv"     -> CCommit(InvocationRpFx(CCur, i.reg, i.inv, i.tmo, i.prog))
    [] i.op = "sendprog" -> CCommit(SendProgFx(CCur, i.inv))
    [] i.op = "deaf"    -> CCommit(DeafFx(CCur))
    [] i.op = "intr"    -> CCommit(InterruptFx(CCur, i.inv))
    [] i.op = "release" -> CCommit(ReleaseFx(CCur, i.inv, i.how))
    [] i.op = "event"   -> CCommit(EventFx(CCur, i.sub, i.a))
    [] i.op \in {"goodbye", "abort", "drop"} -> CCommit(DisconnectFx(CCur))
    \* how = "reply": the router answers the client's GOODBYE at once
    [] i.op = "close"   -> CCommit(IF i.how = "reply" THEN DisconnectFx(CloseFx(CCur)) ELSE CloseFx(CCur))
    \* a hostile message: nothing happens, except that (a) a message carrying an invocation /
    \* interrupt id may advance the duplicate window, (b) a RESULT aimed at a waiting call
    \* ends that call one way or another, (c) the client may give up on such a router
    [] i.op = "hostile" ->
         \E jump \in BOOLEAN, quit \in BOOLEAN :
           LET S1 == IF jump /\ i.hm.t \in {"INVOCATION", "INTERRUPT"} THEN [CCur EXCEPT !.lastinv = 5999] ELSE CCur
               S2 == IF i.id # 0 /\ Waiter(S1, i.id) # {}
                     THEN LET g == CHOOSE x \in Waiter(S1, i.id) : TRUE IN Ret(Finish(S1, g), g, "any", i.id)
                     ELSE S1
           IN CCommit(IF quit THEN DisconnectFx(S2) ELSE S2)

TrStep == /\ IsEvent("step")
          /\ LET r == TraceLog[l] IN
               /\ Apply(r.in)
               /\ cnow' = r.now
               /\ Check(obs', r)

\* the end of a scenario: Close has returned and nothing of the client is left
TrEnd == /\ IsEvent("end")
         /\ LET r == TraceLog[l] IN r.closeret /\ r.gor = 0 /\ r.pending = 0
         /\ UNCHANGED cvars

TraceInit == l = 1 /\ CInitWith(1000)
TraceNext == TrReset \/ TrStep \/ TrEnd
TraceSpec == TraceInit /\ [][TraceNext]_tvars
TraceAccepted == TLCGet("stats").diameter - 1 = Len(TraceLog)
=============================================================================
