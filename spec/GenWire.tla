-------------------------------- MODULE GenWire --------------------------------
(***************************************************************************)
(* Scenario generator for the rawsocket wire (C15 / C04): handshake octets, *)
(* frames of every type around the negotiated limits, truncated frames,     *)
(* PING / PONG between messages, router-side sends around the client's      *)
(* limit.                                                                   *)
(***************************************************************************)
EXTENDS Wire, Json

CONSTANTS Depth, Big
VARIABLES h, role      \* role: "" = nexus accepts the connection, "client" = nexus connects
gvars == <<wvars, h, role>>

R(S) == {RandomElement(S)}
W(q) == {q[RandomElement(1..Len(q))]}
N    == Len(h) + 1

In0 == [op |-> "", magic |-> TRUE, lenn |-> 0, sern |-> 0, rsv |-> TRUE, type |-> 0, len |-> 0, body |-> "", id |-> 0, n |-> 0, split |-> FALSE,
        msgs |-> 0, pings |-> 0, sched |-> ""]

GHandshake ==
  \E magicOK \in W(<<TRUE, TRUE, TRUE, TRUE, TRUE, TRUE, TRUE, FALSE>>), lenNibble \in W(<<0, 0, 1, 3, 15>>),
     serNibble \in W(<<1, 1, 2, 2, 3, 3, 0, 4, 15>>), rsv \in W(<<TRUE, TRUE, TRUE, TRUE, TRUE, TRUE, TRUE, FALSE>>) :
    /\ h' = Append(h, [In0 EXCEPT !.op = "hs", !.magic = magicOK, !.lenn = lenNibble, !.sern = serNibble, !.rsv = rsv])
    /\ Handshake(magicOK, lenNibble, serNibble, rsv)
    /\ UNCHANGED role

\* the server's four octets (nexus is the connecting side): mostly agreement on the serializer asked
\* for, with every length nibble; also another serializer, error replies of every code, a wrong magic
\* octet, hanging up instead of answering
GServerReply ==
  \E magicOK \in W(<<TRUE, TRUE, TRUE, TRUE, TRUE, TRUE, TRUE, FALSE>>), hi \in W(<<0, 0, 1, 3, 15, 2, 4, 5>>),
     how \in W(<<"same", "same", "same", "same", "same", "other", "error", "eof">>), other \in R({1, 2, 3, 4, 15}) :
    LET lo == IF how = "same" THEN ser ELSE IF how = "other" THEN (IF other = ser THEN (ser % 3) + 1 ELSE other) ELSE 0 IN
    /\ h' = Append(h, [In0 EXCEPT !.op = "chs", !.magic = magicOK, !.lenn = hi, !.sern = lo, !.body = IF how = "eof" THEN "eof" ELSE ""])
    /\ ServerReply(magicOK, hi, lo, how = "eof")
    /\ UNCHANGED role

\* lengths around the router's receive limit, and small ones
\* (the 24 bit length field cannot carry more than 2^24 - 1; the 16 MiB frames are left to the thorough tier)
Lens == IF recvLimit > 100000 THEN (IF Big THEN {0, 1, 5, 40, 70000, MaxFrame} ELSE {0, 1, 5, 40, 70000})
        ELSE {0, 1, 5, 40, recvLimit - 1, recvLimit, recvLimit + 1}
GFrame ==
  \E type \in W(<<0, 0, 0, 0, 1, 1, 1, 2, 3, 7>>), len \in R(Lens), body \in W(<<"msg", "msg", "msg", "msg", "junk", "short", "long", "kind">>), split \in R(BOOLEAN) :
    LET l == IF type = 0 /\ body = "msg" /\ len < 40 THEN 40 ELSE IF body = "short" /\ len = 0 THEN 5 ELSE len
        i == [In0 EXCEPT !.op = "frame", !.type = type, !.len = l, !.body = body, !.id = N, !.split = split]
    IN h' = Append(h, i) /\ (IF body \in {"long", "kind"} /\ type = 0
                              THEN phase = "open" /\ UNCHANGED <<phase, ser, sendLimit, recvLimit, cfgLimit>> /\ wobs' = NoObs
                              ELSE Frame(type, l, body, N))
       /\ UNCHANGED role

\* sizes around the client's limit
GSend ==
  \E n \in R({60, sendLimit - 1, sendLimit, sendLimit + 1, 2 * sendLimit}) :
    LET m == IF n < 60 THEN 60 ELSE IF n > 70000 /\ ~Big THEN 70001 ELSE n IN
    /\ h' = Append(h, [In0 EXCEPT !.op = "send", !.n = m, !.id = N]) /\ Send(m, N) /\ UNCHANGED role

GEof == h' = Append(h, [In0 EXCEPT !.op = "eof"]) /\ Eof /\ UNCHANGED role

\* after the connection ended nothing more can be said on it
GNop == h' = Append(h, [In0 EXCEPT !.op = "nop"]) /\ UNCHANGED <<wvars, role>>

GenNext ==
  /\ Len(h) < Depth
  /\ \E kind \in W(<<"frame", "frame", "frame", "frame", "send", "send", "send", "eof">>) :
       IF phase = "hs" THEN GHandshake
       ELSE IF phase = "chs" THEN GServerReply
       ELSE IF phase = "closed" THEN GNop
       ELSE CASE kind = "frame" -> GFrame [] kind = "send" -> GSend [] OTHER -> GEof

GenInit == /\ h = <<>>
           /\ \E limit \in {0, 512, 600, 4096}, r \in {"", "client"}, s \in {1, 2, 3} :
                role = r /\ (IF r = "client" THEN WInitClient(limit, s) ELSE WInitWith(limit))
GenSpec == GenInit /\ [][GenNext]_gvars
Emitted == Len(h) < Depth \/ PrintT(<<"SCN", ToJson([limit |-> cfgLimit, role |-> role, ser |-> ser, steps |-> h])>>)
=============================================================================
