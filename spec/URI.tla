-------------------------------- MODULE URI --------------------------------
(***************************************************************************)
(* WAMP URIs as sequences of one-character strings, and the validation and *)
(* matching rules stated component-wise (independently of any regular      *)
(* expression).  Used by every routing module and as the reference for the *)
(* vectors of C19.                                                         *)
(***************************************************************************)
EXTENDS Integers, Sequences, FiniteSets

StrictChars == {"a","b","c","d","e","f","g","h","i","j","k","l","m","n","o","p","q","r",
                "s","t","u","v","w","x","y","z","0","1","2","3","4","5","6","7","8","9","_"}
\* whitespace in the sense of the rule (ASCII white space)
SpaceChars  == {" ", "\t", "\n", "\r", "\f"}
Dot  == "."
Hash == "#"

\* Components of u: the maximal dot-free runs (Split("") = << <<>> >>).
Split(u) ==
  LET F[i \in 0..Len(u)] ==
        IF i = 0 THEN << <<>> >>
        ELSE LET prev == F[i-1] IN
             IF u[i] = Dot THEN Append(prev, <<>>)
             ELSE [prev EXCEPT ![Len(prev)] = Append(@, u[i])]
  IN F[Len(u)]

LooseComp(c)  == \A i \in DOMAIN c : c[i] \notin SpaceChars /\ c[i] # Dot /\ c[i] # Hash
StrictComp(c) == \A i \in DOMAIN c : c[i] \in StrictChars

\* match is "exact" (or anything else), "prefix" or "wildcard"
ValidURI(strict, match, u) ==
  LET cs == Split(u)
      n  == Len(cs)
      okc(c) == IF strict THEN StrictComp(c) ELSE LooseComp(c)
  IN /\ \A i \in 1..n : okc(cs[i])
     /\ \A i \in 1..n :
          cs[i] = <<>> =>
            CASE match = "wildcard" -> TRUE
              [] match = "prefix"   -> i = n
              [] OTHER              -> FALSE

IsPfx(p, u) == Len(p) <= Len(u) /\ \A i \in 1..Len(p) : p[i] = u[i]

\* a topic/procedure u matches prefix pattern p iff it starts with it
PrefixMatch(u, p) == IsPfx(p, u)

\* u matches wildcard pattern w iff same number of components and equal in
\* every non-empty pattern component
WildcardMatch(u, w) ==
  LET us == Split(u)
      ws == Split(w)
  IN Len(us) = Len(ws) /\ \A i \in 1..Len(ws) : ws[i] = <<>> \/ ws[i] = us[i]

MatchKey(k, u) ==
  CASE k[2] = "prefix"   -> PrefixMatch(u, k[1])
    [] k[2] = "wildcard" -> WildcardMatch(u, k[1])
    [] OTHER             -> k[1] = u

\* normalised match policy as the router stores it
NormMatch(m) == IF m \in {"prefix", "wildcard"} THEN m ELSE "exact"

WampPfx == <<"w","a","m","p",".">>
IsWampURI(u) == IsPfx(WampPfx, u)
=============================================================================
