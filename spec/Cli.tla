--------------------------------- MODULE Cli ---------------------------------
(***************************************************************************)
(* The nexus client library (client/client.go) as an atomic input/output    *)
(* machine, in the style of Core: one action per stimulus - an API call     *)
(* started by an application goroutine, a message from the (scripted)       *)
(* router, a context cancellation, a handler returning, time passing,       *)
(* Close - run to quiescence.  State = the awaiting-reply table, the        *)
(* handler tables and the running invocations; `obs' = what became          *)
(* observable because of the step: API calls that returned (and with what), *)
(* messages the client emitted, callbacks it made.                          *)
(* Serves C16 (correlation, exactly-once, cancellation, invocation life     *)
(* cycle) and C17 (hostile router input, coincidences, shutdown).           *)
(***************************************************************************)
EXTENDS Integers, Sequences, FiniteSets, TLC

CONSTANT CliDeviations   \* named divergences of the code that are switched on

VARIABLES ops,      \* goroutine -> [kind, req, st, dl, prog, name]; st: "waiting" | "canceling" | "done"
          nreq,     \* the last request id the client issued
          csubs,    \* topic name -> subscription id  (event handlers installed)
          cregs,    \* procedure name -> registration id (invocation handlers installed)
          invs,     \* invocation id -> [reg, st, dl]; st: "running" | "done"
          lastinv,  \* greatest invocation / interrupt request id seen
          conn,     \* the client still processes messages (Done() not signalled)
          closing,  \* 0, or the instant at which a Close in progress stops waiting for the router's GOODBYE
          closed,   \* Close has returned
          deaf,     \* the router has stopped reading (without hanging up): what the client sends is stuck in the send
          sched,    \* replies the router will send at a given instant: sequence of [at, id, mk, a]
          cnow,     \* clock, ms
          rt,       \* the configured response timeout, ms
          obs       \* [ret, emit, cb, done, closeret] of the last step

cvars == <<ops, nreq, csubs, cregs, invs, lastinv, conn, closing, closed, deaf, sched, cnow, rt, obs>>

Rng(f) == {f[i] : i \in DOMAIN f}

CCur == [ops |-> ops, nreq |-> nreq, csubs |-> csubs, cregs |-> cregs, invs |-> invs, lastinv |-> lastinv,
         conn |-> conn, closing |-> closing, closed |-> closed, deaf |-> deaf, sched |-> sched, now |-> cnow, rt |-> rt,
         ret |-> <<>>, emit |-> <<>>, cb |-> <<>>]

CCommit(S) ==
  /\ ops' = S.ops /\ nreq' = S.nreq /\ csubs' = S.csubs /\ cregs' = S.cregs /\ invs' = S.invs
  /\ lastinv' = S.lastinv /\ conn' = S.conn /\ closing' = S.closing /\ closed' = S.closed /\ deaf' = S.deaf
  /\ sched' = S.sched /\ cnow' = S.now /\ rt' = S.rt
  /\ obs' = [ret |-> S.ret, emit |-> S.emit, cb |-> S.cb, done |-> ~S.conn, closeret |-> S.closed]

Ret(S, g, out, req)  == [S EXCEPT !.ret = Append(@, [g |-> g, out |-> out, req |-> req])]
\* (towards a router that does not read nothing gets out: the sender waits until the client ends)
EmitC(S, k, req, x)  == IF S.deaf THEN S ELSE [S EXCEPT !.emit = Append(@, [k |-> k, req |-> req, x |-> x])]
DeafFx(S)            == [S EXCEPT !.deaf = TRUE]
Cb(S, k, a, b)       == [S EXCEPT !.cb = Append(@, [k |-> k, a |-> a, b |-> b])]

GNum(g) == CASE g = "g1" -> 1 [] g = "g2" -> 2 [] g = "g3" -> 3 [] g = "g4" -> 4 [] OTHER -> 0

Busy(S, g) == g \in DOMAIN S.ops /\ S.ops[g].st # "done"
Active(S)  == {g \in DOMAIN S.ops : S.ops[g].st # "done"}

ReqKind(kind) == CASE kind = "sub" -> "SUBSCRIBE" [] kind = "unsub" -> "UNSUBSCRIBE" [] kind = "reg" -> "REGISTER"
                   [] kind = "unreg" -> "UNREGISTER" [] kind = "pub" -> "PUBLISH" [] OTHER -> "CALL"
Expected(kind) == CASE kind = "sub" -> "SUBSCRIBED" [] kind = "unsub" -> "UNSUBSCRIBED" [] kind = "reg" -> "REGISTERED"
                    [] kind = "unreg" -> "UNREGISTERED" [] kind = "pub" -> "PUBLISHED" [] OTHER -> "RESULT"

\* --------------------------------------------------------------------------
\* an application goroutine g starts a blocking operation.  name = topic / procedure;
\* prog = the call has a progress handler
\* slow = how long the call's progress handler takes per progressive result (ms): Call does not
\* return before a handler that is still running has finished (busy = until when it runs)
ApiFx(S, g, kind, name, prog, slow) ==
  LET gone(T) == [T EXCEPT !.ops = (g :> [kind |-> kind, req |-> 0, st |-> "done", dl |-> 0, prog |-> prog, name |-> name,
                                           slow |-> slow, busy |-> 0, rout |-> <<>>]) @@ @]
      \* Unsubscribe / Unregister forget the handler first, whatever happens next
      S0 == IF kind = "unsub" /\ name \in DOMAIN S.csubs THEN [S EXCEPT !.csubs = [t \in DOMAIN @ \ {name} |-> @[t]]]
            ELSE IF kind = "unreg" /\ name \in DOMAIN S.cregs THEN [S EXCEPT !.cregs = [t \in DOMAIN @ \ {name} |-> @[t]]]
            ELSE S
      x  == IF kind = "unsub" THEN ToString(S.csubs[name]) ELSE IF kind = "unreg" THEN ToString(S.cregs[name]) ELSE ""
  IN
  IF kind = "unsub" /\ name \notin DOMAIN S.csubs THEN Ret(gone(S), g, "nosuch", 0)
  ELSE IF kind = "unreg" /\ name \notin DOMAIN S.cregs THEN Ret(gone(S), g, "nosuch", 0)
  ELSE IF ~S.conn THEN Ret(gone(S0), g, "notconn", 0)
  ELSE LET id == S.nreq + 1
           op == [kind |-> kind, req |-> id, st |-> "waiting", prog |-> prog, name |-> name, slow |-> slow, busy |-> 0, rout |-> <<>>,
                  \* a call waits as long as its context lives; everything else for the response timeout
                  dl |-> IF kind = "call" THEN 0 ELSE S.now + S.rt]
       IN EmitC([S0 EXCEPT !.nreq = id, !.ops = (g :> op) @@ @], ReqKind(kind), id, x)

\* CallProgressive: the application feeds the call through a callback, chunk by chunk.  n = number
\* of chunks the callback has; how = how the feed ends: the last chunk says progress = false
\* ("false"), leaves the option out ("unset" - final as well, says the documentation), or the
\* callback fails instead of delivering the n-th chunk ("err").  Every chunk is a CALL under the
\* same request id, all but the last marked `progress' (x = "p"), in order; a failing callback ends
\* the feed with CANCEL (killnowait) - or, if it fails before anything was sent, the operation
\* returns its error.  Afterwards the operation is a call like any other.
CallProgFx(S, g, name, prog, slow, n, how) ==
  LET gone(T) == [T EXCEPT !.ops = (g :> [kind |-> "call", req |-> 0, st |-> "done", dl |-> 0, prog |-> prog, name |-> name,
                                           slow |-> slow, busy |-> 0, rout |-> <<>>]) @@ @]
  IN IF ~S.conn THEN Ret(gone(S), g, "notconn", 0)
     ELSE IF how = "err" /\ n = 1 THEN Ret(gone(S), g, "cberr", 0)
     ELSE LET id   == S.nreq + 1
              op   == [kind |-> "call", req |-> id, st |-> "waiting", prog |-> prog, name |-> name, slow |-> slow, busy |-> 0,
                       rout |-> <<>>, dl |-> 0]
              sent == IF how = "err" THEN n - 1 ELSE n
              S1   == [S EXCEPT !.nreq = id, !.ops = (g :> op) @@ @,
                                !.emit = @ \o [k \in 1..sent |-> [k |-> "CALL", req |-> id, x |-> IF k < n THEN "p" ELSE ""]]]
          IN IF how = "err" THEN EmitC(S1, "CANCEL", id, "killnowait") ELSE S1

\* --------------------------------------------------------------------------
\* a message carrying a request id arrives: mk = its type ("RESULTP" = progressive
\* RESULT), a = the subscription / registration id it assigns
Waiter(S, id) == {g \in Active(S) : S.ops[g].req = id /\ S.ops[g].st # "returning"}

Finish(S, g) == [S EXCEPT !.ops[g].st = "done"]

\* the operation of g is over with outcome out: it returns now - or, if its progress handler is
\* still running, when that has finished (no progress callback runs after Call has returned)
RetWhenFree(S, g, out, req) ==
  IF S.ops[g].busy > S.now
  THEN [S EXCEPT !.ops[g].st = "returning", !.ops[g].dl = S.ops[g].busy, !.ops[g].rout = <<out, req>>]
  ELSE Ret(Finish(S, g), g, out, req)

ReplyFx(S, id, mk, a) ==
  IF ~S.conn \/ Waiter(S, id) = {} THEN S                     \* nobody waits for it: dropped
  ELSE LET g == CHOOSE x \in Waiter(S, id) : TRUE
           op == S.ops[g]
       IN IF op.st = "canceling"
          THEN \* after CANCEL everything but the ERROR is discarded; the call returns the context's error
               IF mk = "ERROR" THEN RetWhenFree(S, g, "ctx", 0) ELSE S
          ELSE IF op.kind = "call" /\ mk = "RESULTP" /\ op.prog
          THEN Cb([S EXCEPT !.ops[g].busy = IF op.slow > 0 THEN S.now + op.slow ELSE @],
                  "prog", GNum(g), a)                            \* a = sequence number carried by the payload
          ELSE LET S1 == Finish(S, g)
                   \* only Call hands the reply itself to the application (its request id is observable)
                   rid == IF op.kind = "call" THEN id ELSE 0
               IN
               CASE mk = "ERROR" -> IF op.kind = "call" THEN RetWhenFree(S, g, "rpcerr", rid) ELSE Ret(S1, g, "err", rid)
                 [] mk = Expected(op.kind) \/ (op.kind = "call" /\ mk = "RESULTP") ->
                      LET S2 == IF op.kind = "sub" THEN [S1 EXCEPT !.csubs = (op.name :> a) @@ @]
                                ELSE IF op.kind = "reg" THEN [S1 EXCEPT !.cregs = (op.name :> a) @@ @]
                                ELSE S1
                      IN IF op.kind = "call" THEN RetWhenFree(S, g, "ok", rid) ELSE Ret(S2, g, "ok", rid)
                 [] OTHER -> Ret(S1, g, "unexpected", 0)

\* the context of g's call is cancelled (or its deadline passes): CANCEL with the
\* configured mode, then wait for the router's ERROR at most for the response timeout
CancelCtxFx(S, g, mode) ==
  IF ~(Busy(S, g) /\ S.ops[g].kind = "call" /\ S.ops[g].st = "waiting") THEN S
  ELSE EmitC([S EXCEPT !.ops[g].st = "canceling", !.ops[g].dl = S.now + S.rt], "CANCEL", S.ops[g].req, mode)

\* --------------------------------------------------------------------------
\* invocations
Running(S) == {i \in DOMAIN S.invs : S.invs[i].st = "running"}

\* rp = the INVOCATION says the caller receives progress (details.receive_progress)
InvocationRpFx(S, reg, inv, tmo, rp) ==
  IF ~S.conn THEN S
  ELSE IF reg \notin Rng(S.cregs)
  THEN EmitC(S, "ERROR", inv, "wamp.error.invalid_argument")    \* no handler for that registration
  ELSE IF inv \in Running(S) THEN S                                \* (not generated: see DupInvocation)
  ELSE IF inv <= S.lastinv THEN S                                  \* an old / duplicate id: ignored
  ELSE Cb([S EXCEPT !.invs = (inv :> [reg |-> reg, st |-> "running", dl |-> IF tmo > 0 THEN S.now + tmo ELSE 0, rp |-> rp]) @@ @,
                    !.lastinv = inv], "invstart", inv, 0)

InvocationFx(S, reg, inv, tmo) == InvocationRpFx(S, reg, inv, tmo, FALSE)

\* the handler's context is cancelled: exactly one ERROR with the invocation's id
KillInvFx(S, inv) ==
  EmitC(Cb([S EXCEPT !.invs[inv].st = "done"], "invctx", inv, 0), "ERROR", inv, "wamp.error.canceled")

InterruptFx(S, inv) ==
  IF ~S.conn THEN S
  ELSE LET S1 == [S EXCEPT !.lastinv = IF inv > @ THEN inv ELSE @] IN
       IF inv \in Running(S) THEN KillInvFx(S1, inv) ELSE S1

\* the application's handler returns: how = "yield" | "error"
ReleaseFx(S, inv, how) ==
  IF inv \notin Running(S) THEN S
  ELSE LET S1 == [S EXCEPT !.invs[inv].st = "done"] IN
       IF ~S.conn THEN S1
       ELSE EmitC(S1, IF how = "yield" THEN "YIELD" ELSE "ERROR", inv, IF how = "yield" THEN "" ELSE "app.error")

\* the running handler of inv calls SendProgress: a progressive YIELD under the invocation's id
\* if the caller receives progress, otherwise an error for the handler and nothing on the wire
SendProgFx(S, inv) ==
  IF inv \notin Running(S) THEN S
  ELSE IF S.conn /\ S.invs[inv].rp THEN Cb(EmitC(S, "YIELD", inv, "p"), "sendprog", inv, 1)
  ELSE Cb(S, "sendprog", inv, 0)

EventFx(S, sub, tag) ==
  IF S.conn /\ sub \in Rng(S.csubs) THEN Cb(S, "event", sub, tag) ELSE S

\* --------------------------------------------------------------------------
\* the connection ends: GOODBYE / ABORT from the router, or the transport is lost.
\* Everybody waiting returns; a call that is waiting for the answer to its CANCEL
\* gives up at its own deadline.
RECURSIVE ReturnAll(_, _, _)
ReturnAll(S, gs, out) ==
  IF gs = {} THEN S
  ELSE LET g == CHOOSE x \in gs : TRUE IN ReturnAll(Ret(Finish(S, g), g, out, 0), gs \ {g}, out)

DisconnectFx(S) ==
  IF ~S.conn THEN S
  ELSE LET S1 == [S EXCEPT !.conn = FALSE, !.sched = <<>>,
                           !.invs = [i \in DOMAIN @ |-> [@[i] EXCEPT !.st = "done"]]]
           S2 == ReturnAll(S1, {g \in Active(S1) : S1.ops[g].st = "waiting"}, "notconn")
       \* a Close in progress returns - unless it is still trying to hand its GOODBYE to a router that
       \* does not read: then it gives up at its own deadline
       IN IF S.closing # 0 /\ ~S.deaf THEN [S2 EXCEPT !.closing = 0, !.closed = TRUE] ELSE S2

\* Close: say GOODBYE, wait for the router's GOODBYE at most twice the response timeout
CloseFx(S) ==
  IF S.closed \/ S.closing # 0 THEN S
  ELSE IF ~S.conn THEN [S EXCEPT !.closed = TRUE]
  ELSE EmitC([S EXCEPT !.closing = S.now + 2 * S.rt], "GOODBYE", 0, "")

\* --------------------------------------------------------------------------
\* time.  Due things in time order: operation deadlines, invocation timeouts, the
\* Close deadline, scheduled replies.  tie = what goes first when a scheduled reply
\* and a deadline fall on the same instant ("reply" | "timer"): both are behaviours.
NextTimer(S, upto) ==
  LET ts == {S.ops[g].dl : g \in {x \in Active(S) : S.ops[x].dl # 0}}
            \cup {S.invs[i].dl : i \in {x \in Running(S) : S.invs[x].dl # 0}}
            \cup (IF S.closing # 0 THEN {S.closing} ELSE {})
      due == {t \in ts : t <= upto}
  IN IF due = {} THEN upto + 1 ELSE CHOOSE t \in due : \A u \in due : t <= u
NextSched(S, upto) ==
  LET due == {i \in DOMAIN S.sched : S.sched[i].at <= upto}
  IN IF due = {} THEN upto + 1 ELSE S.sched[CHOOSE i \in due : \A j \in due : S.sched[i].at <= S.sched[j].at].at

FireTimersAt(S, t) ==
  LET S0 == [S EXCEPT !.now = t]
      gr == {g \in Active(S0) : S0.ops[g].dl = t /\ S0.ops[g].st = "returning"}
      RECURSIVE retAll(_, _)
      retAll(T, gs) == IF gs = {} THEN T
                       ELSE LET g == CHOOSE x \in gs : TRUE IN retAll(Ret(Finish(T, g), g, T.ops[g].rout[1], T.ops[g].rout[2]), gs \ {g})
      Sr == retAll(S0, gr)
      g1 == {g \in Active(Sr) : Sr.ops[g].dl = t}
      S1 == ReturnAll([Sr EXCEPT !.ops = [g \in DOMAIN @ |-> IF g \in g1 THEN [@[g] EXCEPT !.dl = 0] ELSE @[g]]], g1, "timeout")
      i1 == {i \in Running(S1) : S1.invs[i].dl = t}
      RECURSIVE kill(_, _)
      kill(T, is) == IF is = {} THEN T ELSE LET i == CHOOSE x \in is : TRUE IN kill(KillInvFx(T, i), is \ {i})
      S2 == IF S1.conn THEN kill(S1, i1) ELSE S1
  IN IF S2.closing = t THEN (IF S2.conn THEN [DisconnectFx(S2) EXCEPT !.closing = 0, !.closed = TRUE]
                             ELSE [S2 EXCEPT !.closing = 0, !.closed = TRUE])
     ELSE S2

\* replies scheduled for the same instant arrive in either order (ord = "lo" | "hi")
FireSchedAt(S, t, ord) ==
  LET S0 == [S EXCEPT !.now = t]
      i  == CHOOSE j \in DOMAIN S0.sched : S0.sched[j].at = t /\ \A k \in DOMAIN S0.sched : S0.sched[k].at = t => (IF ord = "lo" THEN j <= k ELSE j >= k)
      r  == S0.sched[i]
      S1 == [S0 EXCEPT !.sched = SelectSeq(@, LAMBDA e : e # r)]
  IN ReplyFx(S1, r.id, r.mk, r.a)

\* When a scheduled reply and a deadline fall on the same instant, either may go first - reply by
\* reply: win = the request ids whose reply beats the timers of that instant.
FireSchedAtIn(S, t, ord, ids) ==
  LET S0 == [S EXCEPT !.now = t]
      ok(j) == S0.sched[j].at = t /\ S0.sched[j].id \in ids
      i  == CHOOSE j \in DOMAIN S0.sched : ok(j) /\ \A k \in DOMAIN S0.sched : ok(k) => (IF ord = "lo" THEN j <= k ELSE j >= k)
      r  == S0.sched[i]
      S1 == [S0 EXCEPT !.sched = SelectSeq(@, LAMBDA e : e # r)]
  IN ReplyFx(S1, r.id, r.mk, r.a)

\* (the deadline of a Close in progress is a timer of that instant too: -1 \in win lets it go first)
FireCloseAt(S, t) ==
  LET S0 == [S EXCEPT !.now = t]
  IN IF S0.conn THEN [DisconnectFx(S0) EXCEPT !.closing = 0, !.closed = TRUE] ELSE [S0 EXCEPT !.closing = 0, !.closed = TRUE]

RECURSIVE CTimeFx(_, _, _, _)
CTimeFx(S, upto, win, ord) ==
  LET tt == NextTimer(S, upto)
      ts == NextSched(S, upto)
  IN IF tt > upto /\ ts > upto THEN [S EXCEPT !.now = upto]
     ELSE IF ts < tt THEN CTimeFx(FireSchedAt(S, ts, ord), upto, win, ord)
     ELSE IF ts = tt /\ \E j \in DOMAIN S.sched : S.sched[j].at = ts /\ S.sched[j].id \in win
     THEN CTimeFx(FireSchedAtIn(S, ts, ord, win), upto, win, ord)
     ELSE IF -1 \in win /\ S.closing = tt THEN CTimeFx(FireCloseAt(S, tt), upto, win, ord)
     ELSE CTimeFx(FireTimersAt(S, tt), upto, win, ord)

CAdvanceWinFx(S, ms, win, ord) == CTimeFx(S, S.now + ms, win, ord)
\* tie = "reply": every reply first; "timer": the timers first
CAdvanceFx(S, ms, tie, ord) == CAdvanceWinFx(S, ms, IF tie = "reply" THEN {S.sched[j].id : j \in DOMAIN S.sched} ELSE {}, ord)

ScheduleFx(S, id, mk, a, ms) == [S EXCEPT !.sched = Append(@, [at |-> S.now + ms, id |-> id, mk |-> mk, a |-> a])]

\* --------------------------------------------------------------------------
CInitWith(timeout) ==
  /\ ops = <<>> /\ nreq = 0 /\ csubs = <<>> /\ cregs = <<>> /\ invs = <<>> /\ lastinv = 0
  /\ conn = TRUE /\ closing = 0 /\ closed = FALSE /\ deaf = FALSE /\ sched = <<>> /\ cnow = 0 /\ rt = timeout
  /\ obs = [ret |-> <<>>, emit |-> <<>>, cb |-> <<>>, done |-> FALSE, closeret |-> FALSE]
\* the same as a step (a new scenario starts)
CResetTo(timeout) ==
  /\ ops' = <<>> /\ nreq' = 0 /\ csubs' = <<>> /\ cregs' = <<>> /\ invs' = <<>> /\ lastinv' = 0
  /\ conn' = TRUE /\ closing' = 0 /\ closed' = FALSE /\ deaf' = FALSE /\ sched' = <<>> /\ cnow' = 0 /\ rt' = timeout
  /\ obs' = [ret |-> <<>>, emit |-> <<>>, cb |-> <<>>, done |-> FALSE, closeret |-> FALSE]
=============================================================================
