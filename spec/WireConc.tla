------------------------------- MODULE WireConc -------------------------------
(***************************************************************************)
(* The two writers of one rawsocket connection (transport/rawsocketpeer.go):*)
(* sendHandler writes each message as a header and a body (two writes on    *)
(* the connection), recvHandler answers every PING with a PONG header and   *)
(* the payload (two more writes).  Both write to the same connection.  C15: *)
(* "every message ... arrives at the other side intact and in order ...     *)
(* without corrupting the following messages; PING is answered by PONG with *)
(* the same payload" - on the wire: every header is directly followed by    *)
(* its own body.  One action per write call; the deviation                  *)
(* DevUnlockedWrites is the implementation as found (no mutual exclusion    *)
(* over a frame).  Its counterexamples are the schedules replayed into the  *)
(* real peer through a gated connection (harness/wire_test.go, op "race").  *)
(***************************************************************************)
EXTENDS Integers, Sequences, FiniteSets, TLC

CONSTANTS NMsg, NPing, Deviations

(* --algorithm WireConc
variables stream = <<>>,          \* what has been written to the connection: [w, part, id]
          wlock = "",             \* holder of the connection's write lock
          sent = 0, ponged = 0;

define
  Locked == "DevUnlockedWrites" \notin Deviations
end define;

fair process sender = "send"
begin
s0: while sent < NMsg do
s1:   if Locked then await wlock = ""; wlock := "send"; end if;
s2:   stream := Append(stream, [w |-> "send", part |-> "hdr", id |-> sent + 1]);
s3:   stream := Append(stream, [w |-> "send", part |-> "body", id |-> sent + 1]);
s4:   if Locked then wlock := ""; end if;
      sent := sent + 1;
    end while;
end process;

fair process receiver = "recv"
begin
r0: while ponged < NPing do
r1:   if Locked then await wlock = ""; wlock := "recv"; end if;
r2:   stream := Append(stream, [w |-> "recv", part |-> "hdr", id |-> ponged + 1]);
r3:   stream := Append(stream, [w |-> "recv", part |-> "body", id |-> ponged + 1]);
r4:   if Locked then wlock := ""; end if;
      ponged := ponged + 1;
    end while;
end process;
end algorithm; *)
\* BEGIN TRANSLATION
VARIABLES pc, stream, wlock, sent, ponged

(* define statement *)
Locked == "DevUnlockedWrites" \notin Deviations


vars == << pc, stream, wlock, sent, ponged >>

ProcSet == {"send"} \cup {"recv"}

Init == (* Global variables *)
        /\ stream = <<>>
        /\ wlock = ""
        /\ sent = 0
        /\ ponged = 0
        /\ pc = [self \in ProcSet |-> CASE self = "send" -> "s0"
                                        [] self = "recv" -> "r0"]

s0 == /\ pc["send"] = "s0"
      /\ IF sent < NMsg
            THEN /\ pc' = [pc EXCEPT !["send"] = "s1"]
            ELSE /\ pc' = [pc EXCEPT !["send"] = "Done"]
      /\ UNCHANGED << stream, wlock, sent, ponged >>

s1 == /\ pc["send"] = "s1"
      /\ IF Locked
            THEN /\ wlock = ""
                 /\ wlock' = "send"
            ELSE /\ TRUE
                 /\ wlock' = wlock
      /\ pc' = [pc EXCEPT !["send"] = "s2"]
      /\ UNCHANGED << stream, sent, ponged >>

s2 == /\ pc["send"] = "s2"
      /\ stream' = Append(stream, [w |-> "send", part |-> "hdr", id |-> sent + 1])
      /\ pc' = [pc EXCEPT !["send"] = "s3"]
      /\ UNCHANGED << wlock, sent, ponged >>

s3 == /\ pc["send"] = "s3"
      /\ stream' = Append(stream, [w |-> "send", part |-> "body", id |-> sent + 1])
      /\ pc' = [pc EXCEPT !["send"] = "s4"]
      /\ UNCHANGED << wlock, sent, ponged >>

s4 == /\ pc["send"] = "s4"
      /\ IF Locked
            THEN /\ wlock' = ""
            ELSE /\ TRUE
                 /\ wlock' = wlock
      /\ sent' = sent + 1
      /\ pc' = [pc EXCEPT !["send"] = "s0"]
      /\ UNCHANGED << stream, ponged >>

sender == s0 \/ s1 \/ s2 \/ s3 \/ s4

r0 == /\ pc["recv"] = "r0"
      /\ IF ponged < NPing
            THEN /\ pc' = [pc EXCEPT !["recv"] = "r1"]
            ELSE /\ pc' = [pc EXCEPT !["recv"] = "Done"]
      /\ UNCHANGED << stream, wlock, sent, ponged >>

r1 == /\ pc["recv"] = "r1"
      /\ IF Locked
            THEN /\ wlock = ""
                 /\ wlock' = "recv"
            ELSE /\ TRUE
                 /\ wlock' = wlock
      /\ pc' = [pc EXCEPT !["recv"] = "r2"]
      /\ UNCHANGED << stream, sent, ponged >>

r2 == /\ pc["recv"] = "r2"
      /\ stream' = Append(stream, [w |-> "recv", part |-> "hdr", id |-> ponged + 1])
      /\ pc' = [pc EXCEPT !["recv"] = "r3"]
      /\ UNCHANGED << wlock, sent, ponged >>

r3 == /\ pc["recv"] = "r3"
      /\ stream' = Append(stream, [w |-> "recv", part |-> "body", id |-> ponged + 1])
      /\ pc' = [pc EXCEPT !["recv"] = "r4"]
      /\ UNCHANGED << wlock, sent, ponged >>

r4 == /\ pc["recv"] = "r4"
      /\ IF Locked
            THEN /\ wlock' = ""
            ELSE /\ TRUE
                 /\ wlock' = wlock
      /\ ponged' = ponged + 1
      /\ pc' = [pc EXCEPT !["recv"] = "r0"]
      /\ UNCHANGED << stream, sent >>

receiver == r0 \/ r1 \/ r2 \/ r3 \/ r4

(* Allow infinite stuttering to prevent deadlock on termination. *)
Terminating == /\ \A self \in ProcSet: pc[self] = "Done"
               /\ UNCHANGED vars

Next == sender \/ receiver
           \/ Terminating

Spec == /\ Init /\ [][Next]_vars
        /\ WF_vars(sender)
        /\ WF_vars(receiver)

Termination == <>(\A self \in ProcSet: pc[self] = "Done")

\* END TRANSLATION

\* every header is directly followed by its own body
FramesIntact ==
  \A i \in DOMAIN stream :
    stream[i].part = "hdr" /\ i < Len(stream) =>
      stream[i + 1].w = stream[i].w /\ stream[i + 1].part = "body" /\ stream[i + 1].id = stream[i].id
\* each writer's frames appear in its own order
InOrder ==
  \A i, j \in DOMAIN stream :
    i < j /\ stream[i].w = stream[j].w => stream[i].id <= stream[j].id
\* everything is written in the end
AllWritten == <>(Len(stream) = 2 * (NMsg + NPing))
\* the order in which the write calls were granted, for replay
Schedule == [i \in DOMAIN stream |-> stream[i].w]
\* (simulation with the deviation enabled enumerates the schedules: one line per complete behaviour)
Emitted == Len(stream) < 2 * (NMsg + NPing) \/ PrintT(<<"SCHED", Schedule>>)
=============================================================================
