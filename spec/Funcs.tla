------------------------------- MODULE Funcs -------------------------------
(***************************************************************************)
(* C19: the pure functions of wamp/identifier.go, idgen.go, session.go and  *)
(* convert.go against the rules of URI.tla and IDs.tla.  The harness        *)
(* (harness/funcs.go) evaluates the real functions on an enumerated input   *)
(* space and logs input and result; every logged line must agree with the   *)
(* operator of the specification (trace validation, one evaluation per      *)
(* line; no state is involved, so the log is checked in one step).          *)
(***************************************************************************)
EXTENDS URI, IDs, TLC, Json

CONSTANT LogFile

VARIABLE bad

Log == ndJsonDeserialize(LogFile)

Sym(x) == <<x.b, x.o>>

\* the six purposes: strict flag x match policy
Modes == << <<FALSE, "exact">>, <<FALSE, "prefix">>, <<FALSE, "wildcard">>,
            <<TRUE, "exact">>,  <<TRUE, "prefix">>,  <<TRUE, "wildcard">> >>

OK(r) ==
  CASE r.f = "valid"  -> \A i \in 1..6 : r.r[i] = ValidURI(Modes[i][1], Modes[i][2], r.u)
    [] r.f = "pmatch" -> r.r = PrefixMatch(r.u, r.p)
    [] r.f = "wmatch" -> r.r = WildcardMatch(r.u, r.p)
    \* IsNewRecvID / UpdateLastRecvID: verdict and the remembered id afterwards
    [] r.f = "isnew"  -> /\ r.r = IsNew(Sym(r.last), Sym(r.id))
                         /\ Sym(r.upd) = IF r.r THEN Sym(r.id) ELSE Sym(r.last)
    \* IDGen.Next from a given position
    [] r.f = "next"   -> Sym(r.r) = NextID(Sym(r.from))
    \* AsID of an integral number of some Go type: accepted iff within [1, 2^53], value kept
    [] r.f = "asid"   -> /\ r.r = InRange(Sym(r.v))
                         /\ r.r => Sym(r.id) = Sym(r.v)
    \* a router-wide random id
    [] r.f = "global" -> InRange(Sym(r.id))
    \* the first ids of a fresh generator: 1, 2, 3, ...
    [] r.f = "first"  -> \A i \in DOMAIN r.ids : Sym(r.ids[i]) = Z(i)
    [] OTHER -> FALSE

Bad == {i \in DOMAIN Log : ~OK(Log[i])}
\* report at most the eight first disagreeing lines
RECURSIVE FirstN(_, _)
FirstN(S, n) == IF S = {} \/ n = 0 THEN {}
                ELSE LET m == CHOOSE x \in S : \A y \in S : x <= y IN {m} \cup FirstN(S \ {m}, n - 1)

Init == bad = FirstN(Bad, 8)
Next == UNCHANGED bad
Spec == Init /\ [][Next]_bad

Agrees == bad = {}
Lines  == PrintT(<<"LINES", Len(Log)>>)
=============================================================================
