-------------------------------- MODULE GenSrv --------------------------------
(***************************************************************************)
(* Scenario generator for the network front ends (Srv.tla): websocket       *)
(* upgrade requests with every kind of subprotocol offer and origin, then a *)
(* short session; rawsocket listeners with several configured limits.       *)
(***************************************************************************)
EXTENDS Srv, Json

CONSTANT Depth
VARIABLES h, kind
gsvars == <<svars, h, kind>>

R(S) == {RandomElement(S)}
W(q) == {q[RandomElement(1..Len(q))]}

In0 == [op |-> "", offers |-> <<>>, origin |-> "", magic |-> TRUE, lenn |-> 0, sern |-> 0, rsv |-> TRUE, len |-> 0,
        scheme |-> "", ser |-> ""]
AllOffers == Offers \cup {<<"wamp.2.msgpack">>, <<"wamp.2.cbor">>, <<"wamp.2.msgpack", "wamp.2.json">>, <<"bogus", "wamp.2.msgpack", "bogus2">>,
                          <<"wamp.2.cbor", "bogus">>, <<"wamp.2.json", "wamp.2.json">>, <<"WAMP.2.JSON">>, <<"wamp.2.msgpack.batched">>}

GUpgrade == \E o \in R(AllOffers), g \in W(<<"", "", "same", "good", "glob", "evil", "evil">>) :
              /\ h' = Append(h, [In0 EXCEPT !.op = "upgrade", !.offers = o, !.origin = g]) /\ Upgrade(o, g) /\ UNCHANGED kind
GHello   == h' = Append(h, [In0 EXCEPT !.op = "hello"]) /\ Hello /\ UNCHANGED kind
GPub     == h' = Append(h, [In0 EXCEPT !.op = "pub"]) /\ Pub /\ UNCHANGED kind
GSGet    == h' = Append(h, [In0 EXCEPT !.op = "sget"]) /\ SGet /\ UNCHANGED kind
\* (the client announces at least 2 KiB, so that WELCOME fits)
GRsHs    == \E magicOK \in W(<<TRUE, TRUE, TRUE, TRUE, TRUE, FALSE>>), ln \in W(<<2, 3, 15>>), sn \in W(<<1, 1, 2, 2, 3, 3, 0, 4>>),
               rz \in W(<<TRUE, TRUE, TRUE, TRUE, FALSE>>) :
              /\ h' = Append(h, [In0 EXCEPT !.op = "rshs", !.magic = magicOK, !.lenn = ln, !.sern = sn, !.rsv = rz])
              /\ RsHandshake(magicOK, ln, sn, rz) /\ UNCHANGED kind
GRsBig   == /\ recvLimit < 100000      \* (16 MiB frames are left to the wire scenarios)
            /\ h' = Append(h, [In0 EXCEPT !.op = "rsbig", !.len = recvLimit + 1]) /\ RsTooBig /\ UNCHANGED kind
\* (a rawsocket client at a websocket listener waits for the HTTP server's header timeout: rare)
GClient  == \E sc \in W(IF kind = "ws" THEN <<"ws", "ws", "ws", "ws", "http", "http", "http", "bogus", "tcp">>
                                       ELSE <<"tcp", "tcp", "tcp", "tcp4", "tcp4", "ws", "http", "bogus">>), sr \in R({"json", "msgpack", "cbor"}) :
              /\ h' = Append(h, [In0 EXCEPT !.op = "cconnect", !.scheme = sc, !.ser = sr]) /\ ClientConnect(kind, sc, sr) /\ UNCHANGED kind
GNop     == h' = Append(h, [In0 EXCEPT !.op = "nop"]) /\ UNCHANGED <<svars, kind>>

GenNext ==
  /\ Len(h) < Depth
  /\ IF sphase = "closed" THEN GNop
     ELSE IF sphase = "new" THEN \E who \in W(<<"raw", "raw", "client", "client">>) :
                                   IF who = "client" /\ (kind = "ws" \/ cfgLimit = 0 \/ cfgLimit >= 4096) THEN GClient
                                   ELSE IF kind = "ws" THEN GUpgrade ELSE GRsHs
     ELSE IF sphase = "up" THEN GHello
     ELSE \E k \in W(<<"pub", "sget", "sget", "big">>) : IF k = "big" /\ kind = "rs" /\ recvLimit < 100000 THEN GRsBig ELSE IF k = "sget" THEN GSGet ELSE GPub

GenInit == /\ h = <<>>
           /\ \E k \in {"ws", "rs"}, lim \in {0, 512, 600, 4096}, org \in {"none", "list", "star"} :
                kind = k /\ SInit(k, IF k = "rs" THEN lim ELSE 0, IF k = "ws" THEN org ELSE "none")
GenSpec == GenInit /\ [][GenNext]_gsvars
Emitted == Len(h) < Depth \/ PrintT(<<"SCN", ToJson([kind |-> kind, limit |-> cfgLimit, origins |-> origins, steps |-> h])>>)
=============================================================================
