------------------------------- MODULE TraceSrv -------------------------------
(***************************************************************************)
(* Trace validation for Srv: what a client observed at the real websocket   *)
(* and rawsocket servers (harness/srv_test.go) must be behaviours of Srv.   *)
(***************************************************************************)
EXTENDS Srv, Json

CONSTANTS TraceFile, Explain
VARIABLE l
tsvars == <<svars, l>>

TraceLog == ndJsonDeserialize(TraceFile)

NormS(r) == [status |-> r.status, proto |-> r.proto, reply |-> r.reply, frame |-> r.frame, closed |-> r.closed]
Check(o, r) ==
  IF Explain THEN o = NormS(r) \/ PrintT(<<"MISMATCH", ToJson([line |-> l, scn |-> r.scn, expected |-> o, logged |-> NormS(r)])>>)
  ELSE o = NormS(r)

IsEvent(e) == l <= Len(TraceLog) /\ TraceLog[l].ev = e /\ l' = l + 1

TrReset == IsEvent("reset") /\ SResetTo(TraceLog[l].limit, TraceLog[l].origins)

Apply(i, r) ==
  CASE i.op = "upgrade" -> Upgrade(i.offers, i.origin)
    [] i.op = "hello"   -> Hello
    [] i.op = "pub"     -> Pub
    [] i.op = "sget"    -> SGet /\ ~r.leak
    [] i.op = "rshs"    -> RsHandshake(i.magic, i.lenn, i.sern, i.rsv) /\ wobs'.reply = r.hsreply /\ wobs'.closed = r.closed
    [] i.op = "rsbig"   -> RsTooBig
    [] i.op = "cconnect" -> ClientConnect(r.kind, i.scheme, i.ser)
    [] i.op = "nop"     -> sphase = "closed" /\ UNCHANGED <<wvars, sphase, proto, origins>> /\ sobs' = NoSObs

TrStep == /\ IsEvent("step")
          /\ LET r == TraceLog[l] IN Apply(r.in, r) /\ (r.in.op = "rshs" \/ Check(sobs', r))

TraceInit == l = 1 /\ SInit("", 0, "none")
TraceNext == TrReset \/ TrStep
TraceSpec == TraceInit /\ [][TraceNext]_tsvars
TraceAccepted == TLCGet("stats").diameter - 1 = Len(TraceLog)
=============================================================================
