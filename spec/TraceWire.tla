------------------------------- MODULE TraceWire -------------------------------
(***************************************************************************)
(* Trace validation for Wire: recorded octet-level executions of the real   *)
(* rawsocket peer (harness/wire_test.go) must be behaviours of Wire.        *)
(***************************************************************************)
EXTENDS Wire, Json

CONSTANTS TraceFile, Explain
VARIABLE l
tvars == <<wvars, l>>

TraceLog == ndJsonDeserialize(TraceFile)

Norm(r) == [reply |-> r.reply, frames |-> r.frames, delivered |-> r.delivered, closed |-> r.closed]

Check(o, r) ==
  IF Explain THEN o = Norm(r) \/ PrintT(<<"MISMATCH", ToJson([line |-> l, scn |-> r.scn, expected |-> o, logged |-> Norm(r)])>>)
  ELSE o = Norm(r)

IsEvent(e) == l <= Len(TraceLog) /\ TraceLog[l].ev = e /\ l' = l + 1

TrReset == /\ IsEvent("reset")
           /\ IF TraceLog[l].role = "client" THEN WResetClient(TraceLog[l].limit, TraceLog[l].ser)
              ELSE WResetTo(TraceLog[l].limit)

Apply(i) ==
  CASE i.op = "hs"    -> Handshake(i.magic, i.lenn, i.sern, i.rsv)
    [] i.op = "chs"   -> ServerReply(i.magic, i.lenn, i.sern, i.body = "eof")
    [] i.op = "frame" -> Frame(i.type, i.len, i.body, i.id)
    [] i.op = "send"  -> Send(i.n, i.id)
    [] i.op = "race"  -> Race(i.msgs, i.pings, i.n, i.len, i.id, TraceLog[l].frames)
    [] i.op = "eof"   -> Eof
    [] i.op = "nop"   -> phase = "closed" /\ UNCHANGED <<phase, ser, sendLimit, recvLimit, cfgLimit>> /\ wobs' = NoObs

TrStep == /\ IsEvent("step")
          /\ LET r == TraceLog[l] IN Apply(r.in) /\ Check(wobs', r)

TraceInit == l = 1 /\ WInitWith(0)
TraceNext == TrReset \/ TrStep
TraceSpec == TraceInit /\ [][TraceNext]_tvars
TraceAccepted == TLCGet("stats").diameter - 1 = Len(TraceLog)
=============================================================================
