--------------------------------- MODULE Wire ---------------------------------
(***************************************************************************)
(* The rawsocket transport (transport/rawsocketpeer.go) seen from the wire: *)
(* one connection between a raw client (the harness writes octets) and the  *)
(* router side peer created by AcceptRawSocket.  One action per thing the   *)
(* client or the router does; `wobs' = what became observable: octets the   *)
(* client read (as frames), messages delivered to the router, whether the   *)
(* connection ended.  Serves C15 (framing, limits, handshake, PING/PONG)    *)
(* and the byte level part of C04 (a hostile frame ends that connection     *)
(* only and never hands the router something that is not a message).        *)
(***************************************************************************)
EXTENDS Integers, Sequences, FiniteSets, TLC

VARIABLES phase,      \* "hs" (waiting for the client's handshake) | "chs" (nexus connects: waiting for the server's reply) | "open" | "closed"
          ser,        \* agreed serializer: 1 JSON, 2 MessagePack, 3 CBOR
          sendLimit,  \* largest message the router side may send (announced by the client)
          recvLimit,  \* largest message the router side accepts (announced by the router)
          cfgLimit,   \* the receive limit the server was configured with (0 = none)
          wobs        \* [reply, frames, delivered, closed] of the last step

wvars == <<phase, ser, sendLimit, recvLimit, cfgLimit, wobs>>

RECURSIVE Pow2(_)
Pow2(k) == IF k = 0 THEN 1 ELSE 2 * Pow2(k - 1)
LimitOf(nibble) == Pow2(9 + nibble)

\* the smallest length nibble whose limit covers the configured limit (15 if none configured or too big)
FitNibble(limit) == IF limit > 0 /\ \E b \in 0..14 : LimitOf(b) >= limit
                    THEN CHOOSE b \in 0..14 : LimitOf(b) >= limit /\ \A c \in 0..14 : LimitOf(c) >= limit => b <= c
                    ELSE 15

NoObs == [reply |-> <<>>, frames |-> <<>>, delivered |-> <<>>, closed |-> FALSE]

\* the largest length a frame header can carry
MaxFrame == 16777215

\* --------------------------------------------------------------------------
\* the client's four handshake octets: magic ok?, length nibble, serializer nibble, reserved octets zero?
Handshake(magicOK, lenNibble, serNibble, reservedZero) ==
  /\ phase = "hs"
  /\ UNCHANGED cfgLimit
  /\ IF ~magicOK \/ (reservedZero /\ serNibble = 0)
     THEN \* not a rawsocket client / illegal serializer: the connection is dropped without reply
          /\ phase' = "closed" /\ UNCHANGED <<ser, sendLimit, recvLimit>>
          /\ wobs' = [NoObs EXCEPT !.closed = TRUE]
     ELSE IF ~reservedZero
     THEN /\ phase' = "closed" /\ UNCHANGED <<ser, sendLimit, recvLimit>>
          /\ wobs' = [NoObs EXCEPT !.reply = <<"error", 3>>, !.closed = TRUE]          \* use of reserved bits
     ELSE IF serNibble \notin {1, 2, 3}
     THEN /\ phase' = "closed" /\ UNCHANGED <<ser, sendLimit, recvLimit>>
          /\ wobs' = [NoObs EXCEPT !.reply = <<"error", 1>>, !.closed = TRUE]          \* serializer unsupported
     ELSE /\ phase' = "open" /\ ser' = serNibble
          /\ sendLimit' = LimitOf(lenNibble)
          /\ recvLimit' = LimitOf(FitNibble(cfgLimit))
          /\ wobs' = [NoObs EXCEPT !.reply = <<"ok", FitNibble(cfgLimit), serNibble>>]

\* --------------------------------------------------------------------------
\* The same peer as the connecting side (transport.ConnectRawSocketPeer, clientHandshake): it has
\* written magic, FitNibble(its configured receive limit), the serializer it wants (`ser') and two
\* zero octets; the other end answers with four octets - magic ok?, high nibble, low nibble - or
\* hangs up.  Low nibble = the serializer agreed (must be the one asked for); low nibble 0 = an error
\* reply whose code is the high nibble.  Agreement: this side may send what the server announced
\* (high nibble) and accepts what it announced itself.  Anything else: the connect attempt fails and
\* the connection is closed.  Afterwards both roles are the same peer: Frame, Send, Race, Eof.
ServerReply(magicOK, hi, lo, hangup) ==
  /\ phase = "chs"
  /\ UNCHANGED <<cfgLimit, ser>>
  /\ IF ~hangup /\ magicOK /\ lo = ser
     THEN /\ phase' = "open"
          /\ sendLimit' = LimitOf(hi)
          /\ recvLimit' = LimitOf(FitNibble(cfgLimit))
          /\ wobs' = [NoObs EXCEPT !.reply = <<"ok", FitNibble(cfgLimit), ser>>]
     ELSE /\ phase' = "closed" /\ UNCHANGED <<sendLimit, recvLimit>>
          /\ wobs' = [NoObs EXCEPT !.reply = <<"error", FitNibble(cfgLimit), ser>>, !.closed = TRUE]

\* --------------------------------------------------------------------------
\* a frame from the client: type bits, announced length, what follows the header:
\*   "msg"   = that many octets that are a well-formed message (tagged id)
\*   "junk"  = that many octets that do not decode
\*   "short" = fewer octets than announced, then the client hangs up
End == /\ phase' = "closed" /\ UNCHANGED <<ser, sendLimit, recvLimit, cfgLimit>>

Frame(type, len, body, id) ==
  /\ phase = "open"
  /\ IF body = "short" \/ len > recvLimit \/ type \in 3..7
     THEN \* truncated, above the announced limit, or of a reserved type: that connection ends,
          \* and nothing that is not a message ever reaches the router
          End /\ wobs' = [NoObs EXCEPT !.closed = TRUE]
     ELSE /\ UNCHANGED <<phase, ser, sendLimit, recvLimit, cfgLimit>>
          /\ CASE type = 0 ->
                    \* "long" / "kind": a list with one element too many / a request id of the wrong kind.
                    \* Whether the serializer still makes a message of it is C14's business; here it
                    \* either arrives as the message it resembles or is ignored - and nothing else happens.
                    IF body \in {"long", "kind"}
                    THEN \E d \in {<<>>, <<id>>} : wobs' = [NoObs EXCEPT !.delivered = d]
                    ELSE wobs' = [NoObs EXCEPT !.delivered = IF body = "msg" THEN <<id>> ELSE <<>>]
               \* PING -> PONG with the same payload (an empty payload carries no tag: id 0)
               [] type = 1 -> wobs' = [NoObs EXCEPT !.frames = <<[type |-> 2, len |-> len, id |-> IF len = 0 THEN 0 ELSE id % 256]>>]
               [] OTHER    -> wobs' = NoObs                                                               \* PONG: ignored

\* the router hands a message of encoded size n to the peer
Send(n, id) ==
  /\ phase = "open"
  /\ UNCHANGED <<phase, ser, sendLimit, recvLimit, cfgLimit>>
  /\ wobs' = [NoObs EXCEPT !.frames = IF n <= sendLimit /\ n <= MaxFrame THEN <<[type |-> 0, len |-> n, id |-> id]>> ELSE <<>>]

\* Two writers, one connection (spec/WireConc.tla): the router hands `msgs' messages of n octets
\* (ids id, id+1, ...) to the peer while `pings' PINGs of the client (payload length len, tags
\* id+100, ...) are being answered.  Whatever the interleaving of the two goroutines' write calls,
\* the client reads whole frames: the messages in order, the PONGs in order, nothing else.
\* f = the frames the client read (the interleaving is the implementation's choice).
Race(msgs, pings, n, len, id, f) ==
  /\ phase = "open"
  /\ UNCHANGED <<phase, ser, sendLimit, recvLimit, cfgLimit>>
  /\ n <= sendLimit /\ n <= MaxFrame
  /\ SelectSeq(f, LAMBDA x : x.type = 0) = [k \in 1..msgs |-> [type |-> 0, len |-> n, id |-> id + k - 1]]
  /\ SelectSeq(f, LAMBDA x : x.type = 2) = [k \in 1..pings |-> [type |-> 2, len |-> len, id |-> (id + 99 + k) % 256]]
  /\ Len(f) = msgs + pings
  /\ wobs' = [NoObs EXCEPT !.frames = f]

\* the client hangs up
Eof == /\ phase \in {"hs", "open"} /\ End /\ wobs' = [NoObs EXCEPT !.closed = TRUE]

WInitWith(limit) == phase = "hs" /\ ser = 0 /\ sendLimit = 0 /\ recvLimit = 0 /\ cfgLimit = limit /\ wobs = NoObs
WInitClient(limit, s)  == phase = "chs" /\ ser = s /\ sendLimit = 0 /\ recvLimit = 0 /\ cfgLimit = limit /\ wobs = NoObs
WResetClient(limit, s) == phase' = "chs" /\ ser' = s /\ sendLimit' = 0 /\ recvLimit' = 0 /\ cfgLimit' = limit /\ wobs' = NoObs
WResetTo(limit)  == phase' = "hs" /\ ser' = 0 /\ sendLimit' = 0 /\ recvLimit' = 0 /\ cfgLimit' = limit /\ wobs' = NoObs
=============================================================================
