"""C19: URI rules and ids (spec/URI.tla, IDs.tla, MCFuncs.tla, Funcs.tla; harness/funcs_test.go)."""
import json, os, re, subprocess, time
from concurrent.futures import ThreadPoolExecutor
from vlib import *  # noqa

BOUNDS = {"quick": dict(maxlen=4, nrand=3000, mc_len=3), "thorough": dict(maxlen=6, nrand=40000, mc_len=4)}


def mc_cfg(part, maxlen):
    inv = "Lattice ExactMeaning MatchSanity" if part == "uri" else "IssuedInRange FreshAccepted DupRejected"
    return ('SPECIFICATION Spec\nCONSTANTS MaxLen = %d\n  Alphabet = {"a", "A", " ", ".", "#"}\n  Part = "%s"\n'
            'INVARIANTS %s\nCHECK_DEADLOCK FALSE\n' % (maxlen, part, inv))


def validate_chunk(work, path, tag):
    cfg = 'SPECIFICATION Spec\nCONSTANT LogFile = "%s"\nINVARIANT Agrees\nCHECK_DEADLOCK FALSE\n' % path
    rc, out, wall = tlc(work, "Funcs", cfg, [], 1800, workers=1, tag=tag, javaopts="-Xss512m")
    m = re.search(r"bad = (\{[^}]*\})", out)
    if "No error has been found" in out:
        return []
    if not m:
        raise Infra("function log validation broke (%s):\n%s" % (tag, out[-2500:]))
    return [int(x) for x in re.findall(r"\d+", m.group(1))]


def run_funcs(prop, spec, tier, seed, work, replay):
    b = BOUNDS[tier]
    binary = build_harness(work)
    # leg 1: the reference rules against each other, the id protocol around the wrap
    st = {"distinct": 0, "generated": 0, "wall_s": 0.0}
    if not replay:
        for part in ("uri", "ids"):
            s = model_check(work, "MCFuncs", mc_cfg(part, b["mc_len"]), timeout=1800, tag="mcfuncs-" + part)
            for k in st:
                st[k] += s[k]
    # leg 2: evaluate the real functions
    logf = work.path("funcs.ndjson")
    env = goenv()
    env.update({"VERIF_OUT": logf, "VERIF_LEN": str(b["maxlen"]), "VERIF_NRAND": str(b["nrand"]),
                "VERIF_SEED": str(seed), "VERIF_TIER": tier})
    t0 = time.time()
    r = subprocess.run([binary, "-test.run", "^TestFuncs$", "-test.count=1", "-test.timeout", "0"], cwd=work.dir, env=env,
                       capture_output=True, text=True)
    if r.returncode != 0:
        err = r.stdout + r.stderr
        if "panic:" in err or "fatal error:" in err:
            line = next((l for l in err.splitlines() if l.startswith("panic:") or l.startswith("fatal error:")), "?")
            return {"violations": [{"kind": "crash", "stderr": err[-5000:], "sig": {"op": "crash"},
                                    "summary": "a function of the wamp package panicked on an enumerated input: " + line}],
                    "coverage": {"evaluations": 1, "distinct_nontrivial": 0, "states": st["distinct"] or 1, "transitions": st["generated"] or 1,
                                 "traces_validated_against_impl": 0, "samples": [line]}}
        raise Infra("TestFuncs failed:\n" + err[-3000:])
    lines = open(logf).read().splitlines()
    log("evaluated %d function applications in %.1fs" % (len(lines), time.time() - t0))
    # leg 3: every logged line against the rules, in parallel chunks
    nchunk = min(CORES, max(1, len(lines) // 6000))
    size = (len(lines) + nchunk - 1) // nchunk
    chunks = []
    for i in range(nchunk):
        p = work.path("funcs.%d.ndjson" % i)
        open(p, "w").write("\n".join(lines[i * size:(i + 1) * size]) + "\n")
        chunks.append((p, i * size))
    t0 = time.time()
    with ThreadPoolExecutor(max_workers=CORES) as ex:
        res = list(ex.map(lambda c: validate_chunk(work, c[0], "vf%d" % (c[1] // size)), chunks))
    log("validated %d lines in %d chunks, %.1fs" % (len(lines), nchunk, time.time() - t0))
    violations = []
    for (p, off), bad in zip(chunks, res):
        for n in bad:
            l = json.loads(lines[off + n - 1])
            what = {"valid": "URI validation", "pmatch": "prefix matching", "wmatch": "wildcard matching", "isnew": "IsNewRecvID/UpdateLastRecvID",
                    "next": "IDGen.Next", "asid": "AsID", "global": "GlobalID", "first": "IDGen.Next"}.get(l["f"], l["f"])
            d = dict(l)
            for f in ("u", "p"):
                if f in d:
                    d[f] = "".join(d[f])
            violations.append({"kind": "function-disagrees", "line": l, "sig": {"op": l["f"]},
                               "summary": "%s disagrees with the rule of the specification: %s" % (what, json.dumps(d, ensure_ascii=False))})
    violations = violations[:12]
    if replay:
        return {"violations": violations, "coverage": {}}
    # binding self-test: one flipped result must be rejected
    good = [i for i, l in enumerate(lines[:3000]) if '"valid"' in l and "true" in l]
    selftest = "skipped"
    if good and not violations:
        cor = list(lines[:3000])
        k = good[len(good) // 2]
        cor[k] = cor[k].replace("true", "false", 1)
        p = work.path("funcs.selftest.ndjson")
        open(p, "w").write("\n".join(cor) + "\n")
        bad = validate_chunk(work, p, "vfself")
        if bad != [k + 1]:
            raise Infra("binding self-test failed: flipped result at line %d, rejected lines %s" % (k + 1, bad))
        selftest = "log with one flipped validation result (line %d) rejected at exactly that line" % (k + 1)
    kinds = {}
    for l in lines:
        m = re.match(r'\{"f":"(\w+)"', l)
        kinds[m.group(1)] = kinds.get(m.group(1), 0) + 1
    distinct = len(set(lines))
    samples = [json.loads(lines[i]) for i in (7, len(lines) // 3, len(lines) - 400, len(lines) - 2000) if 0 <= i < len(lines)]
    cov = {"states": st["distinct"], "transitions": st["generated"], "traces_validated_against_impl": len(lines) - len(violations),
           "samples": samples, "evaluations": len(lines), "distinct_nontrivial": distinct,
           "rule": "the harness applies ValidURI (6 modes), PrefixMatch, WildcardMatch, IsNewRecvID/UpdateLastRecvID, IDGen.Next, AsID and GlobalID "
                   "of the current tree to: every string of length <= %d over one representative per character class, seeded longer URIs over a wider "
                   "alphabet, every URI/pattern pair over {a b .}, id pairs around 0, 2^53 and the 500 wide wrap window, every Go number type; "
                   "each logged application is evaluated by TLC against URI.tla / IDs.tla (Funcs.tla). distinct = distinct logged lines" % b["maxlen"],
           "applications_by_function": kinds, "binding_selftest": selftest,
           "leg1": {"module": "MCFuncs.tla", "invariants": ["Lattice", "ExactMeaning", "MatchSanity", "IssuedInRange", "FreshAccepted", "DupRejected"], "wall_s": st["wall_s"]},
           "checker_cmd": "tlc MCFuncs.tla (leg 1); go test -run TestFuncs (leg 2); tlc Funcs.tla (leg 3)",
           "exhaustive": True, "exhaustive_over": "strings up to length %d over the 9 symbol alphabet; pairs over {a b .} up to length 4" % b["maxlen"]}
    return {"violations": violations, "coverage": cov,
            "assumptions": ["bounded string length and alphabet (one representative per character class); non-ASCII white space is left open",
                            "ids written symbolically as base + small offset (TLC integers are 32 bit)", "TLC"]}
