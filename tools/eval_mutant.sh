#!/bin/sh
# usage: tools/eval_mutant.sh <worktree> <mutant-dir> <tier> <prop> [<prop>...]
# 1. confirms the seeded change in the scratch worktree (builds, suite passes, demo fails with / passes without)
# 2. runs the named checks against the worktree with the change applied (VERIF_REPO), never touching /repo
wt="$1"; md="$2"; tier="$3"; shift 3
export GOFLAGS=-mod=mod GOPROXY=off
cd "$wt" || exit 2
git checkout -q -- . ; git clean -fdq -e OUT
first=$(head -1 "$md/demo_test.go")
dst=$(echo "$first" | sed -n 's#.*copy to \([A-Za-z0-9_./-]*_test\.go\).*#\1#p')
[ -z "$dst" ] && { echo "cannot parse demo destination from: $first"; exit 2; }
tdir=$(dirname "$dst")
rx=$(grep -o '^func Test[A-Za-z0-9_]*' "$md/demo_test.go" | sed 's/func //' | tr '\n' '|' | sed 's/|$//')
cp "$md/demo_test.go" "$dst"
without=$(go test -vet=off -count=1 -timeout 600s -run "^($rx)\$" "./$tdir/" 2>&1 | grep -E "^(ok|FAIL|--- FAIL|panic)" | head -4 | tr '\n' ';')
echo "DEMO(without): $without"
git apply "$md/patch.diff" || { echo "APPLY-FAIL"; rm -f "$dst"; exit 2; }
go build ./... || { echo "BUILD-FAIL"; git checkout -q -- .; rm -f "$dst"; exit 1; }
with=$(go test -vet=off -count=1 -timeout 600s -run "^($rx)\$" "./$tdir/" 2>&1 | grep -E "^(ok|FAIL|--- FAIL|panic)" | head -4 | tr '\n' ';')
echo "DEMO(with): $with"
rm -f "$dst"
if [ -z "$SKIP_SUITE" ]; then
suite=$(go test -vet=off -count=1 -timeout 400s ./router/... ./wamp/... ./transport/... ./test/ ./client/ 2>&1 | grep -E "^(ok|FAIL|--- FAIL)" | tr '\n' ';')
echo "SUITE(with): $suite"
fi
cd /verif
for p in "$@"; do
  out=$(VERIF_REPO="$wt" ./bin/check "$p" "$tier" 2>&1); rc=$?
  echo "CHECK $p $tier rc=$rc $(echo "$out" | grep -c '^VIOLATION') violations; $(echo "$out" | grep -E 'INCONCLUSIVE' | head -1 | cut -c1-200)"
  echo "$out" | grep -A1 '^VIOLATION' | grep -v '^VIOLATION' | grep -v '^--' | head -3 | cut -c1-400
done
cd "$wt" && git checkout -q -- . && git clean -fdq -e OUT
