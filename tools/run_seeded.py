#!/usr/bin/env python3
"""tools/run_seeded.py [--tier quick] [id ...]: applies each seeded change (seeded/<id>/patch.diff) to a scratch
worktree of /repo (never /repo itself), runs the check(s) of its property against that worktree and records
whether the change was reported; removes the worktree afterwards."""
import json, os, subprocess, sys, time
VERIF = os.path.dirname(os.path.dirname(os.path.abspath(__file__)))
WT = "/tmp/verif-seeded-wt-%d" % os.getpid()
args = sys.argv[1:]
tier = "quick"
if args[:1] == ["--tier"]:
    tier = args[1]
    args = args[2:]
ids = args or sorted(d for d in os.listdir(os.path.join(VERIF, "seeded")) if os.path.exists(os.path.join(VERIF, "seeded", d, "patch.diff")))
env = dict(os.environ, GOFLAGS="-mod=mod", GOPROXY="off")
subprocess.run(["git", "-C", "/repo", "worktree", "add", "--detach", WT, "HEAD"], capture_output=True)
results = {}
try:
    for sid in ids:
        d = os.path.join(VERIF, "seeded", sid)
        meta = json.load(open(os.path.join(d, "meta.json")))
        subprocess.run("git checkout -q -- . && git clean -fdq", shell=True, cwd=WT)
        r = subprocess.run(["git", "apply", os.path.join(d, "patch.diff")], cwd=WT, capture_output=True, text=True)
        if r.returncode != 0:
            print("%s: patch does not apply to the current tree: %s" % (sid, r.stderr.strip()[:200]))
            results[sid] = "patch does not apply"
            continue
        props = meta.get("checks") or [meta["property"]]
        hit, infra = [], []
        for p in props:
            t0 = time.time()
            out = subprocess.run([os.path.join(VERIF, "bin", "check"), p, tier], cwd=VERIF, env=dict(env, VERIF_REPO=WT), capture_output=True, text=True)
            n = out.stdout.count("VIOLATION property=")
            print("%s: check %s %s -> exit %d, %d violation line(s), %.0fs" % (sid, p, tier, out.returncode, n, time.time() - t0), flush=True)
            if out.returncode == 1 and n:
                hit.append(p)
            elif out.returncode == 2:
                infra.append(p)
                print("   " + (out.stderr.strip().splitlines() or ["?"])[-1][:300])
        results[sid] = "detected by " + ", ".join(hit) if hit else ("inconclusive (check exit 2: %s)" % ", ".join(infra) if infra else "NOT detected")
        meta["last_result"] = {"tier": tier, "result": results[sid], "date": time.strftime("%Y-%m-%d")}
        json.dump(meta, open(os.path.join(d, "meta.json"), "w"), indent=1)
finally:
    subprocess.run(["git", "-C", "/repo", "worktree", "remove", "--force", WT], capture_output=True)
print(json.dumps(results, indent=1))
