"""C15: transports (spec/RawSocket.tla, TraceWire.tla; harness/wire.go, wire_test.go) and transport
transparency: the routing scenarios of the core family replayed over rawsocket / websocket x 3 serializers."""
import json, os, re, random
from vlib import *  # noqa

# (wsk = websocket with the router side's keep-alive on: pings every 30 s of virtual time, another send loop)
TRANSPORTS = ["rs-json", "rs-msgpack", "rs-cbor", "ws-json", "ws-msgpack", "ws-cbor", "wsk-json", "wsk-msgpack", "wsk-cbor"]


def over_transports(scns, seed, kinds=None):
    """every network session of a scenario gets a wire transport; the specification does not
    know about transports, so the same trace specification must accept the run"""
    rnd = random.Random(seed)
    out = []
    for n, sc in enumerate(scns):
        sc = json.loads(json.dumps(sc))
        used = []
        for st in sc["steps"]:
            if st["op"] == "join" and not st["join"]["local"]:
                tl = kinds or TRANSPORTS
                st["join"]["tr"] = tl[(n + len(used) + rnd.randrange(2)) % len(tl)]
                used.append(st["join"]["tr"])
        sc["transports"] = used
        out.append(sc)
    return out


def wire_story(events, upto=None):
    lines = []
    for n, e in enumerate(events, 1):
        if e["ev"] == "reset":
            lines.append("%2d reset: server receive limit %d" % (n, e["limit"]))
            continue
        i = {k: v for k, v in e["in"].items() if v not in (0, "", False) or k in ("magic", "rsv") and e["in"]["op"] == "hs"}
        lines.append("%2d %s" % (n, json.dumps(i)))
        if e["reply"]:
            lines.append("      handshake reply: %s" % json.dumps(e["reply"]))
        for f in e["frames"]:
            lines.append("      client read frame: %s" % json.dumps(f))
        if e["delivered"]:
            lines.append("      delivered to the router: %s" % json.dumps(e["delivered"]))
        if e["closed"]:
            lines.append("      connection ended")
        if upto and n >= upto:
            break
    return "\n".join(lines)


def wire_explain(xout):
    mm = re.search(r'<<"MISMATCH", (".*")>>', xout)
    if not mm:
        return {"raw": xout[-1500:]}
    try:
        return json.loads(unq(mm.group(1)))
    except Exception:
        return {"raw": mm.group(0)[:1500]}


def wire_conc_cfg(nmsg, nping, devs, inv, props=()):
    cfg = "SPECIFICATION Spec\nCONSTANTS\n  NMsg = %d\n  NPing = %d\n  Deviations = %s\n" % (nmsg, nping, tla_set(devs))
    if inv:
        cfg += "INVARIANTS " + " ".join(inv) + "\n"
    if props:
        cfg += "PROPERTIES " + " ".join(props) + "\n"
    return cfg + "CHECK_DEADLOCK FALSE\n"


def run_wire_conc(work, tier):
    """leg 1 on spec/WireConc.tla (the two writers of one connection); the deviation that is the
    implementation without mutual exclusion over a frame must be caught"""
    n = 2 if tier == "quick" else 3
    st = model_check(work, "WireConc", wire_conc_cfg(n, n, [], ["FramesIntact", "InOrder"], ["AllWritten"]), timeout=1200, tag="wireconc")
    rc, out, wall = tlc(work, "WireConc", wire_conc_cfg(2, 2, ["DevUnlockedWrites"], ["FramesIntact"]), [], 600, workers=1, tag="wireconc-dev")
    if "Invariant FramesIntact is violated" not in out:
        raise Infra("WireConc.tla: deviation DevUnlockedWrites is not caught by FramesIntact (vacuous?)")
    return st


def gen_schedules(work, nmsg, nping, num, seed):
    """the interleavings of the two writers' write calls, from TLC simulation of WireConc.tla with
    mutual exclusion switched off: every order in which the implementation's calls could be granted"""
    cfg = wire_conc_cfg(nmsg, nping, ["DevUnlockedWrites"], []) + "INVARIANT Emitted\n"
    rc, out, wall = tlc(work, "WireConc", cfg, ["-simulate", "num=%d" % (num * 4), "-depth", "80", "-seed", str(seed)], 600, workers=1,
                        tag="gensched%d%d" % (nmsg, nping))
    if "Error:" in out:
        raise Infra("schedule generation failed:\n" + out[-2000:])
    scheds = []
    for m in re.finditer(r'<<"SCHED", <<(.*?)>>>>', out):
        sc = "".join("s" if w.strip() == '"send"' else "r" for w in m.group(1).split(","))
        if sc not in scheds:
            scheds.append(sc)
        if len(scheds) >= num:
            break
    if not scheds:
        raise Infra("no schedule generated:\n" + out[-1500:])
    return scheds


def race_scenarios(work, prop, tier, seed):
    rnd = random.Random(seed)
    out = []
    shapes = [(1, 1), (2, 1), (2, 2)] if tier == "quick" else [(1, 1), (2, 1), (1, 2), (2, 2), (3, 2), (3, 3)]
    per = 12 if tier == "quick" else 60
    for (nm, npg) in shapes:
        for sched in gen_schedules(work, nm, npg, per, seed * 31 + nm * 7 + npg):
            sern = rnd.choice([1, 2, 3])
            steps = [{"op": "hs", "magic": True, "lenn": 15, "sern": sern, "rsv": True},
                     {"op": "race", "msgs": nm, "pings": npg, "n": rnd.choice([60, 200, 1500]), "len": rnd.choice([1, 5, 40]), "id": 10, "sched": sched},
                     {"op": "send", "n": 60, "id": 50},
                     {"op": "frame", "type": 0, "len": 40, "body": "msg", "id": 51},
                     {"op": "frame", "type": 1, "len": 3, "body": "msg", "id": 52}]
            out.append({"id": "%s.race%d.%04d" % (prop, seed, len(out) + 1), "limit": 0, "real": True, "steps": steps})
    log("generated %d write-interleaving scenarios from WireConc.tla" % len(out))
    return out


INTERCHANGE = [("pubsub", "", 16), ("rpc", "", 18), ("meta", "", 16), ("hist", "hist", 16), ("cancel", "", 16), ("tst", "", 14), ("disc", "disc", 14),
               # in-process publishers hand over payloads that cannot be serialised: dropped whole for network receivers only
               ("pubsub", "unser", 16)]


def exec_wire(work, binary, wscn):
    """executes octet-level scenarios and validates them against TraceWire.tla"""
    byid = {s["id"]: s for s in wscn}
    violations = []
    tf, crashes = run_exec(work, binary, wscn, "wire", test="TestWireExec")
    for c in crashes:
        line = next((l for l in c["stderr"].splitlines() if l.startswith("panic:") or l.startswith("fatal error:")), "?")
        violations.append({"kind": "wire-crash", "scn": c["scn"], "scenario": byid[c["scn"]], "stderr": c["stderr"], "sig": {"op": "crash"},
                           "summary": "the process hosting the rawsocket peer died in wire scenario %s: %s" % (c["scn"], line)})
    evs = read_trace(tf)
    ok, nev, fails = validate_all(work, "TraceWire", "TraceSpec", {}, tf, "valwire", story=wire_story, explain=wire_explain)
    for f in fails:
        ev = f.get("event") or {}
        violations.append({"kind": "wire-rejected", "scn": f["scn"], "scenario": byid[f["scn"]], "step": f["step"], "explain": f["explain"],
                           "story": f["story"].split("\n"), "sig": {"op": (ev.get("in") or {}).get("op")},
                           "summary": "wire scenario %s: the recorded octet-level execution is not a behaviour of Wire.tla at step %d (%s)" % (
                               f["scn"], f["step"], json.dumps({k: v for k, v in (ev.get("in") or {}).items() if v not in (0, "", False)}))})
    return violations, (ok, sum(1 for e in evs if e["ev"] == "step"), evs)


def srv_story(events, upto=None):
    lines = []
    for n, e in enumerate(events, 1):
        if e["ev"] == "reset":
            lines.append("%2d reset: listener receive limit %d, allowed origins: %s" % (n, e["limit"], e["origins"]))
            continue
        i = {k: v for k, v in e["in"].items() if v not in (0, "", False, [])}
        lines.append("%2d %s" % (n, json.dumps(i)))
        lines.append("      -> %s" % json.dumps({k: e[k] for k in ("status", "proto", "reply", "frame", "closed", "hsreply") if e.get(k) not in (0, "", False, [], None)}))
        if upto and n >= upto:
            break
    return "\n".join(lines)


def exec_srv(work, binary, sscn):
    """front end scenarios (real WebsocketServer / RawSocketServer on the loopback interface) validated against TraceSrv.tla"""
    byid = {s["id"]: s for s in sscn}
    violations = []
    tf, crashes = run_exec(work, binary, sscn, "srv", test="TestSrvExec")
    for c in crashes:
        line = next((l for l in c["stderr"].splitlines() if l.startswith("panic:") or l.startswith("fatal error:")), "?")
        violations.append({"kind": "srv-crash", "scn": c["scn"], "scenario": byid[c["scn"]], "stderr": c["stderr"], "sig": {"op": "crash"},
                           "summary": "the process hosting the router's network front end died in scenario %s: %s" % (c["scn"], line)})
    evs = read_trace(tf)
    ok, nev, fails = validate_all(work, "TraceSrv", "TraceSpec", {}, tf, "valsrv", story=srv_story, explain=wire_explain)
    for f in fails:
        ev = f.get("event") or {}
        violations.append({"kind": "srv-rejected", "scn": f["scn"], "scenario": byid[f["scn"]], "step": f["step"], "explain": f["explain"],
                           "story": f["story"].split("\n"), "sig": {"op": (ev.get("in") or {}).get("op")},
                           "summary": "front end scenario %s: what the client observed is not a behaviour of Srv.tla at step %d (%s)" % (
                               f["scn"], f["step"], json.dumps({k: v for k, v in (ev.get("in") or {}).items() if v not in (0, "", False, [])}))})
    return violations, (ok, sum(1 for e in evs if e["ev"] == "step"), evs)


def run_wire(prop, spec, tier, seed, work, replay):
    import families
    binary = build_harness(work)
    violations = []
    st = {"distinct": 0, "generated": 0, "wall_s": 0.0}
    consts_core = {"Deviations": tla_set([]), "Classes": tla_set(families.ALL_CLASSES)}
    wscn, cscn, sscn = [], [], []
    if replay:
        rp = json.load(open(replay))
        (wscn if rp.get("kind", "").startswith("wire") else sscn if rp.get("kind", "").startswith("srv") else cscn).append(rp["scenario"])
    else:
        # leg 1
        cfg = "SPECIFICATION MCSpec\nCONSTANT MaxSteps = %d\nINVARIANTS C15_Inbound C15_Outbound C15_Limits C15_Ended\nCHECK_DEADLOCK FALSE\n" % (5 if tier == "quick" else 6)
        st = model_check(work, "MCWire", cfg, timeout=3000, tag="mcwire")
        st2 = run_wire_conc(work, tier)
        st3 = model_check(work, "Srv", "SPECIFICATION MCSSpec\nINVARIANTS S_FrameType\nPROPERTIES S_Offered S_Origin S_Closed\nCHECK_DEADLOCK FALSE\n", timeout=1200, tag="mcsrv")
        for k in st:
            st[k] = st[k] + st2[k] + st3[k]
        # leg 2a: octet level scenarios
        n = 400 if tier == "quick" else 5000
        wscn = gen_scenarios(work, "GenWire", {"Depth": 9, "Big": "FALSE"}, n, 9, seed * 7919, "genwire", "%s.wire%d." % (prop, seed))
        if tier == "thorough":
            wscn += gen_scenarios(work, "GenWire", {"Depth": 7, "Big": "TRUE"}, 40, 7, seed * 7919 + 5, "genwirebig", "%s.wirebig%d." % (prop, seed))
        # leg 2a': schedules of the two writers of a connection (WireConc.tla), granted one write call at a time
        wscn += race_scenarios(work, prop, tier, seed)
        # leg 2c: the network front ends (real listeners on the loopback interface)
        sscn = gen_scenarios(work, "GenSrv", {"Depth": 5}, 150 if tier == "quick" else 1500, 5, seed * 7919 + 77, "gensrv", "%s.srv%d." % (prop, seed))
        # leg 2b: the routing scenarios of the core family over every transport and serializer
        per = 45 if tier == "quick" else 700
        for gi, (bag, mode, depth) in enumerate(INTERCHANGE):
            part = gen_scenarios(work, "Gen", {"Deviations": tla_set([]), "Depth": depth, "Mode": '"%s"' % mode, "Scripted": "FALSE"},
                                 per, depth, seed * 7919 + 31 + gi, "genx%d" % gi, "%s.%s%d." % (prop, bag, seed),
                                 defs={"KindBag": families.BAG[bag]})
            for s in part:
                s["epilogue"] = True
            # (unserialisable payloads: mostly towards websocket peers with keep-alive, whose send loop is another one)
            cscn += over_transports(part, seed + gi, ["wsk-json", "wsk-msgpack", "wsk-cbor", "ws-msgpack", "rs-json"] if mode == "unser" else None)
    if not replay and [k for k in known_findings(prop) if k.get("status") == "known" and k.get("deviation")]:
        cscn.append(families.known_finding_scenario(prop))
    byid = {s["id"]: s for s in wscn + cscn}
    cov_w, cov_c, cov_s = (0, 0, []), (0, 0, []), (0, 0, [])
    if wscn:
        v, cov_w = exec_wire(work, binary, wscn)
        violations += v
    if sscn:
        v, cov_s = exec_srv(work, binary, sscn)
        violations += v
    if cscn:
        tf, crashes = run_exec(work, binary, cscn, "ex")
        for c in crashes:
            line = next((l for l in c["stderr"].splitlines() if l.startswith("panic:") or l.startswith("fatal error:")), "?")
            violations.append({"kind": "crash", "scn": c["scn"], "scenario": byid[c["scn"]], "stderr": c["stderr"], "sig": {"op": "crash"},
                               "summary": "the worker running the router died in scenario %s (network transports): %s" % (c["scn"], line)})
        evs = read_trace(tf)
        ok, nev, fails = validate_all(work, "Trace", "TraceSpec", consts_core, tf, "valx")
        known = [k for k in known_findings(prop) if k.get("status") == "known" and k.get("deviation")]
        groupsx, _ = split_by_scn(evs)
        for f in fails:
            kn = None
            for k in known:
                fk = work.path("knownx.ndjson")
                with open(fk, "w") as fh:
                    for e in groupsx[f["scn"]]:
                        fh.write(json.dumps(e) + "\n")
                acc, _, _, _ = validate(work, "Trace", "TraceSpec", dict(consts_core, Deviations=tla_set([k["deviation"]])), fk, "knownx")
                if acc:
                    kn = k
                    break
            violations.append({"kind": "trace-rejected", "known": kn, "scn": f["scn"], "scenario": byid[f["scn"]], "step": f["step"], "explain": f["explain"],
                               "story": f["story"].split("\n"), "sig": families.violation_sig(f), "transports": byid[f["scn"]].get("transports"),
                               "summary": "scenario %s over %s: the recorded execution is not a behaviour of the (transport independent) specification at step %d (%s)" % (
                                   f["scn"], byid[f["scn"]].get("transports"), f["step"], json.dumps(families.violation_sig(f)))})
        cov_c = (ok, sum(1 for e in evs if e["ev"] == "step"), evs)
    if replay:
        return {"violations": violations, "coverage": {}}
    # binding self-test on the wire traces: a dropped frame must be rejected
    selftest = "skipped"
    if cov_w[2] and not [v for v in violations if v["kind"].startswith("wire")]:
        groups, order = split_by_scn(cov_w[2])
        sub = json.loads(json.dumps([e for s in order[:40] for e in groups[s]]))
        for n, e in enumerate(sub):
            if e["ev"] == "step" and e["frames"]:
                e["frames"] = e["frames"][1:]
                f = work.path("selftestwire.ndjson")
                with open(f, "w") as fh:
                    for x in sub:
                        fh.write(json.dumps(x) + "\n")
                acc, depth, _, _ = validate(work, "TraceWire", "TraceSpec", {}, f, "selftestwire")
                if acc:
                    raise Infra("binding self-test failed: a wire trace with a dropped frame was accepted")
                selftest = "wire trace with one received frame removed at line %d rejected at line %s" % (n + 1, depth)
                break
    shapes = set()
    for e in cov_w[2]:
        if e["ev"] == "step":
            i = e["in"]
            shapes.add((i["op"], i["type"], i["body"], i["sern"], bool(e["reply"]), len(e["frames"]), len(e["delivered"]), e["closed"]))
    tr_used = {}
    for s in cscn:
        for t in s.get("transports") or []:
            tr_used[t] = tr_used.get(t, 0) + 1
    samples = []
    if cov_w[2]:
        g, o = split_by_scn(cov_w[2])
        samples.append({"scenario": o[0], "story": wire_story(g[o[0]]).split("\n")})
    if cov_c[2]:
        g, o = split_by_scn(cov_c[2])
        pick = next((s for s in o if byid[s].get("transports")), o[0])
        samples.append({"scenario": pick, "transports": byid[pick].get("transports"), "story": scenario_story(g[pick]).split("\n")[:40]})
    cov = {"states": st["distinct"], "transitions": st["generated"], "traces_validated_against_impl": cov_w[0] + cov_c[0] + cov_s[0],
           "samples": samples, "evaluations": cov_w[1] + cov_c[1] + cov_s[1], "front_end_scenarios": len(sscn), "distinct_nontrivial": len(shapes) + families.distinct_shapes(cov_c[2]),
           "rule": "(a) TLC simulation of GenWire.tla generates octet-level rawsocket scenarios (handshake octets, frames of every type around the negotiated "
                   "limits, truncated frames, PING/PONG, router-side sends around the client's limit) executed against transport.AcceptRawSocket over an "
                   "in-memory pipe and - with nexus as the connecting side, the harness answering the handshake octet by octet - against "
                   "transport.ConnectRawSocketPeer over loopback TCP, validated by TLC against TraceWire.tla; (c) TLC simulation of GenSrv.tla generates upgrade requests / handshakes and short sessions run against the real WebsocketServer and "
                   "RawSocketServer on the loopback interface, validated against TraceSrv.tla; (a') the interleavings of the write calls of the "
                   "peer's two goroutines enumerated by TLC from WireConc.tla are imposed on the real peer through a gated connection; (b) routing scenarios generated from Gen.tla are executed with every network "
                   "session attached over rawsocket or websocket with JSON, MessagePack or CBOR and validated against the same Trace.tla as in-process runs. "
                   "distinct = distinct (wire step shape, outcome) plus distinct (input kind, received message kinds) of the routing runs",
           "wire_scenarios": len(wscn), "connecting_side_scenarios": sum(1 for s in wscn if s.get("role") == "client"),
           "write_interleaving_scenarios": sum(1 for s in wscn if ".race" in s["id"]), "routing_scenarios_over_transports": len(cscn), "sessions_by_transport": tr_used,
           "binding_selftest": selftest, "leg1": {"module": "MCWire.tla + WireConc.tla", "invariants": ["C15_Inbound", "C15_Outbound", "C15_Limits", "C15_Ended", "FramesIntact", "InOrder", "AllWritten (liveness)"], "wall_s": st["wall_s"]},
           "checker_cmd": "tlc MCWire.tla (leg 1); tlc -simulate GenWire.tla / Gen.tla (leg 2); tlc TraceWire.tla / Trace.tla (leg 3)", "exhaustive": False}
    return {"violations": violations, "coverage": cov,
            "assumptions": ["the in-memory websocket connection of harness/wire.go stands for gorilla's framing (not modelled)",
                            "the harness end of a rawsocket connection frames and decodes with the repository's own serializers (checked separately by C14)",
                            "scenarios in which nexus is the connecting side (ConnectRawSocketPeer) and the write-interleaving scenarios run in real time over a loopback TCP "
                            "connection / a gated pipe; the end of a step is detected by marker messages in both directions (FIFO), never by a timeout on correct code",
                            "TLC, testing/synctest"]}
