"""C15: transports (spec/RawSocket.tla, TraceWire.tla; harness/wire.go, wire_test.go) and transport
transparency: the routing scenarios of the core family replayed over rawsocket / websocket x 3 serializers."""
import json, os, re, random
from vlib import *  # noqa

TRANSPORTS = ["rs-json", "rs-msgpack", "rs-cbor", "ws-json", "ws-msgpack", "ws-cbor"]


def over_transports(scns, seed):
    """every network session of a scenario gets a wire transport; the specification does not
    know about transports, so the same trace specification must accept the run"""
    rnd = random.Random(seed)
    out = []
    for n, sc in enumerate(scns):
        sc = json.loads(json.dumps(sc))
        used = []
        for st in sc["steps"]:
            if st["op"] == "join" and not st["join"]["local"]:
                st["join"]["tr"] = TRANSPORTS[(n + len(used) + rnd.randrange(2)) % len(TRANSPORTS)]
                used.append(st["join"]["tr"])
        sc["transports"] = used
        out.append(sc)
    return out


def wire_story(events, upto=None):
    lines = []
    for n, e in enumerate(events, 1):
        if e["ev"] == "reset":
            lines.append("%2d reset: server receive limit %d" % (n, e["limit"]))
            continue
        i = {k: v for k, v in e["in"].items() if v not in (0, "", False) or k in ("magic", "rsv") and e["in"]["op"] == "hs"}
        lines.append("%2d %s" % (n, json.dumps(i)))
        if e["reply"]:
            lines.append("      handshake reply: %s" % json.dumps(e["reply"]))
        for f in e["frames"]:
            lines.append("      client read frame: %s" % json.dumps(f))
        if e["delivered"]:
            lines.append("      delivered to the router: %s" % json.dumps(e["delivered"]))
        if e["closed"]:
            lines.append("      connection ended")
        if upto and n >= upto:
            break
    return "\n".join(lines)


def wire_explain(xout):
    mm = re.search(r'<<"MISMATCH", (".*")>>', xout)
    if not mm:
        return {"raw": xout[-1500:]}
    try:
        return json.loads(unq(mm.group(1)))
    except Exception:
        return {"raw": mm.group(0)[:1500]}


INTERCHANGE = [("pubsub", "", 16), ("rpc", "", 18), ("meta", "", 16), ("hist", "hist", 16), ("cancel", "", 16), ("tst", "", 14), ("disc", "disc", 14)]


def exec_wire(work, binary, wscn):
    """executes octet-level scenarios and validates them against TraceWire.tla"""
    byid = {s["id"]: s for s in wscn}
    violations = []
    tf, crashes = run_exec(work, binary, wscn, "wire", test="TestWireExec")
    for c in crashes:
        line = next((l for l in c["stderr"].splitlines() if l.startswith("panic:") or l.startswith("fatal error:")), "?")
        violations.append({"kind": "wire-crash", "scn": c["scn"], "scenario": byid[c["scn"]], "stderr": c["stderr"], "sig": {"op": "crash"},
                           "summary": "the process hosting the rawsocket peer died in wire scenario %s: %s" % (c["scn"], line)})
    evs = read_trace(tf)
    ok, nev, fails = validate_all(work, "TraceWire", "TraceSpec", {}, tf, "valwire", story=wire_story, explain=wire_explain)
    for f in fails:
        ev = f.get("event") or {}
        violations.append({"kind": "wire-rejected", "scn": f["scn"], "scenario": byid[f["scn"]], "step": f["step"], "explain": f["explain"],
                           "story": f["story"].split("\n"), "sig": {"op": (ev.get("in") or {}).get("op")},
                           "summary": "wire scenario %s: the recorded octet-level execution is not a behaviour of Wire.tla at step %d (%s)" % (
                               f["scn"], f["step"], json.dumps({k: v for k, v in (ev.get("in") or {}).items() if v not in (0, "", False)}))})
    return violations, (ok, sum(1 for e in evs if e["ev"] == "step"), evs)


def run_wire(prop, spec, tier, seed, work, replay):
    import families
    binary = build_harness(work)
    violations = []
    st = {"distinct": 0, "generated": 0, "wall_s": 0.0}
    consts_core = {"Deviations": tla_set([]), "Classes": tla_set(families.ALL_CLASSES)}
    wscn, cscn = [], []
    if replay:
        rp = json.load(open(replay))
        (wscn if rp.get("kind", "").startswith("wire") else cscn).append(rp["scenario"])
    else:
        # leg 1
        cfg = "SPECIFICATION MCSpec\nCONSTANT MaxSteps = %d\nINVARIANTS C15_Inbound C15_Outbound C15_Limits C15_Ended\nCHECK_DEADLOCK FALSE\n" % (5 if tier == "quick" else 6)
        st = model_check(work, "MCWire", cfg, timeout=3000, tag="mcwire")
        # leg 2a: octet level scenarios
        n = 400 if tier == "quick" else 5000
        wscn = gen_scenarios(work, "GenWire", {"Depth": 9, "Big": "FALSE"}, n, 9, seed * 7919, "genwire", "%s.wire%d." % (prop, seed))
        if tier == "thorough":
            wscn += gen_scenarios(work, "GenWire", {"Depth": 7, "Big": "TRUE"}, 40, 7, seed * 7919 + 5, "genwirebig", "%s.wirebig%d." % (prop, seed))
        # leg 2b: the routing scenarios of the core family over every transport and serializer
        per = 45 if tier == "quick" else 700
        for gi, (bag, mode, depth) in enumerate(INTERCHANGE):
            part = gen_scenarios(work, "Gen", {"Deviations": tla_set([]), "Depth": depth, "Mode": '"%s"' % mode, "Scripted": "FALSE"},
                                 per, depth, seed * 7919 + 31 + gi, "genx%d" % gi, "%s.%s%d." % (prop, bag, seed),
                                 defs={"KindBag": families.BAG[bag]})
            for s in part:
                s["epilogue"] = True
            cscn += over_transports(part, seed + gi)
    byid = {s["id"]: s for s in wscn + cscn}
    cov_w, cov_c = (0, 0, []), (0, 0, [])
    if wscn:
        v, cov_w = exec_wire(work, binary, wscn)
        violations += v
    if False:
        tf, crashes = run_exec(work, binary, wscn, "wire", test="TestWireExec")
        for c in crashes:
            line = next((l for l in c["stderr"].splitlines() if l.startswith("panic:") or l.startswith("fatal error:")), "?")
            violations.append({"kind": "wire-crash", "scn": c["scn"], "scenario": byid[c["scn"]], "stderr": c["stderr"], "sig": {"op": "crash"},
                               "summary": "the process hosting the rawsocket peer died in wire scenario %s: %s" % (c["scn"], line)})
        evs = read_trace(tf)
        ok, nev, fails = validate_all(work, "TraceWire", "TraceSpec", {}, tf, "valwire", story=wire_story, explain=wire_explain)
        for f in fails:
            ev = f.get("event") or {}
            violations.append({"kind": "wire-rejected", "scn": f["scn"], "scenario": byid[f["scn"]], "step": f["step"], "explain": f["explain"],
                               "story": f["story"].split("\n"), "sig": {"op": (ev.get("in") or {}).get("op")},
                               "summary": "wire scenario %s: the recorded octet-level execution is not a behaviour of Wire.tla at step %d (%s)" % (
                                   f["scn"], f["step"], json.dumps({k: v for k, v in (ev.get("in") or {}).items() if v not in (0, "", False)}))})
        cov_w = (ok, sum(1 for e in evs if e["ev"] == "step"), evs)
    if cscn:
        tf, crashes = run_exec(work, binary, cscn, "ex")
        for c in crashes:
            line = next((l for l in c["stderr"].splitlines() if l.startswith("panic:") or l.startswith("fatal error:")), "?")
            violations.append({"kind": "crash", "scn": c["scn"], "scenario": byid[c["scn"]], "stderr": c["stderr"], "sig": {"op": "crash"},
                               "summary": "the worker running the router died in scenario %s (network transports): %s" % (c["scn"], line)})
        evs = read_trace(tf)
        ok, nev, fails = validate_all(work, "Trace", "TraceSpec", consts_core, tf, "valx")
        known = [k for k in known_findings(prop) if k.get("status") == "known" and k.get("deviation")]
        groupsx, _ = split_by_scn(evs)
        for f in fails:
            kn = None
            for k in known:
                fk = work.path("knownx.ndjson")
                with open(fk, "w") as fh:
                    for e in groupsx[f["scn"]]:
                        fh.write(json.dumps(e) + "\n")
                acc, _, _, _ = validate(work, "Trace", "TraceSpec", dict(consts_core, Deviations=tla_set([k["deviation"]])), fk, "knownx")
                if acc:
                    kn = k
                    break
            violations.append({"kind": "trace-rejected", "known": kn, "scn": f["scn"], "scenario": byid[f["scn"]], "step": f["step"], "explain": f["explain"],
                               "story": f["story"].split("\n"), "sig": families.violation_sig(f), "transports": byid[f["scn"]].get("transports"),
                               "summary": "scenario %s over %s: the recorded execution is not a behaviour of the (transport independent) specification at step %d (%s)" % (
                                   f["scn"], byid[f["scn"]].get("transports"), f["step"], json.dumps(families.violation_sig(f)))})
        cov_c = (ok, sum(1 for e in evs if e["ev"] == "step"), evs)
    if replay:
        return {"violations": violations, "coverage": {}}
    # binding self-test on the wire traces: a dropped frame must be rejected
    selftest = "skipped"
    if cov_w[2] and not [v for v in violations if v["kind"].startswith("wire")]:
        groups, order = split_by_scn(cov_w[2])
        sub = json.loads(json.dumps([e for s in order[:40] for e in groups[s]]))
        for n, e in enumerate(sub):
            if e["ev"] == "step" and e["frames"]:
                e["frames"] = e["frames"][1:]
                f = work.path("selftestwire.ndjson")
                with open(f, "w") as fh:
                    for x in sub:
                        fh.write(json.dumps(x) + "\n")
                acc, depth, _, _ = validate(work, "TraceWire", "TraceSpec", {}, f, "selftestwire")
                if acc:
                    raise Infra("binding self-test failed: a wire trace with a dropped frame was accepted")
                selftest = "wire trace with one received frame removed at line %d rejected at line %s" % (n + 1, depth)
                break
    shapes = set()
    for e in cov_w[2]:
        if e["ev"] == "step":
            i = e["in"]
            shapes.add((i["op"], i["type"], i["body"], i["sern"], bool(e["reply"]), len(e["frames"]), len(e["delivered"]), e["closed"]))
    tr_used = {}
    for s in cscn:
        for t in s.get("transports") or []:
            tr_used[t] = tr_used.get(t, 0) + 1
    samples = []
    if cov_w[2]:
        g, o = split_by_scn(cov_w[2])
        samples.append({"scenario": o[0], "story": wire_story(g[o[0]]).split("\n")})
    if cov_c[2]:
        g, o = split_by_scn(cov_c[2])
        pick = next((s for s in o if byid[s].get("transports")), o[0])
        samples.append({"scenario": pick, "transports": byid[pick].get("transports"), "story": scenario_story(g[pick]).split("\n")[:40]})
    cov = {"states": st["distinct"], "transitions": st["generated"], "traces_validated_against_impl": cov_w[0] + cov_c[0],
           "samples": samples, "evaluations": cov_w[1] + cov_c[1], "distinct_nontrivial": len(shapes) + families.distinct_shapes(cov_c[2]),
           "rule": "(a) TLC simulation of GenWire.tla generates octet-level rawsocket scenarios (handshake octets, frames of every type around the negotiated "
                   "limits, truncated frames, PING/PONG, router-side sends around the client's limit) executed against transport.AcceptRawSocket over an "
                   "in-memory pipe and validated by TLC against TraceWire.tla; (b) routing scenarios generated from Gen.tla are executed with every network "
                   "session attached over rawsocket or websocket with JSON, MessagePack or CBOR and validated against the same Trace.tla as in-process runs. "
                   "distinct = distinct (wire step shape, outcome) plus distinct (input kind, received message kinds) of the routing runs",
           "wire_scenarios": len(wscn), "routing_scenarios_over_transports": len(cscn), "sessions_by_transport": tr_used,
           "binding_selftest": selftest, "leg1": {"module": "MCWire.tla", "invariants": ["C15_Inbound", "C15_Outbound", "C15_Limits", "C15_Ended"], "wall_s": st["wall_s"]},
           "checker_cmd": "tlc MCWire.tla (leg 1); tlc -simulate GenWire.tla / Gen.tla (leg 2); tlc TraceWire.tla / Trace.tla (leg 3)", "exhaustive": False}
    return {"violations": violations, "coverage": cov,
            "assumptions": ["the in-memory websocket connection of harness/wire.go stands for gorilla's framing (not modelled)",
                            "the harness end of a rawsocket connection frames and decodes with the repository's own serializers (checked separately by C14)",
                            "client side rawsocket handshake (ConnectRawSocketPeer needs a real socket) is not exercised", "TLC, testing/synctest"]}
