"""C15: transports (spec/RawSocket.tla, TraceWire.tla; harness/wire.go, wire_test.go) and transport
transparency: the routing scenarios of the core family replayed over rawsocket / websocket x 3 serializers."""
import json, os, re, random
from vlib import *  # noqa

TRANSPORTS = ["rs-json", "rs-msgpack", "rs-cbor", "ws-json", "ws-msgpack", "ws-cbor"]


def over_transports(scns, seed):
    """every network session of a scenario gets a wire transport; the specification does not
    know about transports, so the same trace specification must accept the run"""
    rnd = random.Random(seed)
    out = []
    for n, sc in enumerate(scns):
        sc = json.loads(json.dumps(sc))
        used = []
        for st in sc["steps"]:
            if st["op"] == "join" and not st["join"]["local"]:
                st["join"]["tr"] = TRANSPORTS[(n + len(used) + rnd.randrange(2)) % len(TRANSPORTS)]
                used.append(st["join"]["tr"])
        sc["transports"] = used
        out.append(sc)
    return out
