#!/usr/bin/env python3
"""Shared machinery of the nexus checks: TLC model checking (leg 1), TLC scenario
generation and execution on the real code (leg 2), TLC trace validation (leg 3),
verdicts, replays, evidence.  See DESIGN.md section 2."""
import json, os, re, shutil, subprocess, sys, time, hashlib

VERIF = os.path.dirname(os.path.dirname(os.path.abspath(__file__)))
REPO = os.environ.get("VERIF_REPO", "/repo")
SPEC = os.path.join(VERIF, "spec")
HARNESS = os.path.join(VERIF, "harness")
CORES = os.cpu_count() or 4


class Infra(Exception):
    """infrastructure failure: exit 2, never a violation"""


def log(*a):
    print(*a, file=sys.stderr, flush=True)


def goenv():
    e = dict(os.environ)
    e["GOFLAGS"] = "-mod=mod"
    e["GOPROXY"] = "off"
    e.pop("GOSUMDB", None)
    if e.get("GOTOOLCHAIN") == "local":
        e.pop("GOTOOLCHAIN")
    return e


class Work:
    """scratch directory under /verif/work, removed on exit unless VERIF_KEEP"""

    def __init__(self, name):
        self.dir = os.path.join(VERIF, "work", "%s-%d" % (name, os.getpid()))
        shutil.rmtree(self.dir, ignore_errors=True)
        os.makedirs(self.dir)
        for f in os.listdir(SPEC):
            if f.endswith(".tla"):
                shutil.copy(os.path.join(SPEC, f), self.dir)

    def path(self, *p):
        return os.path.join(self.dir, *p)

    def cleanup(self):
        if not os.environ.get("VERIF_KEEP"):
            shutil.rmtree(self.dir, ignore_errors=True)


# ---------------------------------------------------------------------------
# building the harness against /repo's current working tree

def build_harness(work, race=False):
    hdir = HARNESS
    if REPO != "/repo":
        # evaluation against a scratch worktree (seeded mutants): a private copy of the
        # harness module whose replace directive points there
        hdir = work.path("harness-src")
        if not os.path.isdir(hdir):
            shutil.copytree(HARNESS, hdir)
            gm = open(os.path.join(hdir, "go.mod")).read().replace("=> /repo", "=> " + REPO)
            open(os.path.join(hdir, "go.mod"), "w").write(gm)
    shutil.copy(os.path.join(REPO, "go.sum"), os.path.join(hdir, "go.sum"))
    out = work.path("harness.test" + (".race" if race else ""))
    cmd = ["go", "test", "-c", "-tags", "verif", "-o", out]
    if race:
        cmd.append("-race")
    cmd.append(".")
    t0 = time.time()
    r = subprocess.run(cmd, cwd=hdir, env=goenv(), capture_output=True, text=True)
    if r.returncode != 0:
        raise Infra("harness build failed against the current tree:\n" + r.stdout + r.stderr)
    log("built harness in %.1fs" % (time.time() - t0))
    return out


# ---------------------------------------------------------------------------
# TLC

def tlc(work, module, cfgtext, args, timeout, workers=1, tag=None, javaopts=None):
    tag = tag or module
    cfg = work.path(tag + ".cfg")
    open(cfg, "w").write(cfgtext)
    meta = work.path("meta-" + tag)
    shutil.rmtree(meta, ignore_errors=True)
    cmd = ["timeout", str(timeout), "tlc", "-workers", str(workers), "-metadir", meta,
           "-config", cfg] + args + [module + ".tla"]
    env = dict(os.environ)
    if javaopts:
        env["JAVA_TOOL_OPTIONS"] = javaopts
    t0 = time.time()
    r = subprocess.run(cmd, cwd=work.dir, env=env, capture_output=True, text=True)
    shutil.rmtree(meta, ignore_errors=True)
    out = r.stdout + r.stderr
    if r.returncode == 124:
        raise Infra("TLC timed out after %ss on %s" % (timeout, tag))
    if "java.lang.OutOfMemoryError" in out or "StackOverflowError" in out:
        raise Infra("TLC resource failure on %s:\n%s" % (tag, out[-2000:]))
    return r.returncode, out, time.time() - t0


def tla_set(xs):
    return "{" + ", ".join('"%s"' % x for x in xs) + "}"


def parse_mc_stats(out):
    m = re.search(r"(\d+) states generated, (\d+) distinct states found", out)
    if not m:
        return None
    return {"generated": int(m.group(1)), "distinct": int(m.group(2))}


def model_check(work, module, cfgtext, timeout=1800, workers=None, tag=None):
    """leg 1: exhaustive TLC run; returns stats; a counterexample on the spec is
    an infrastructure failure of the check (the spec must have the property),
    never a violation of the code"""
    rc, out, wall = tlc(work, module, cfgtext, ["-deadlock"] if False else [], timeout,
                        workers=workers or CORES, tag=tag)
    st = parse_mc_stats(out)
    if rc != 0 or st is None or "Error:" in out:
        raise Infra("leg 1: TLC did not verify %s (rc=%d):\n%s" % (tag or module, rc, out[-3000:]))
    st["wall_s"] = round(wall, 1)
    return st


# ---------------------------------------------------------------------------
# leg 2: scenario generation by TLC simulation

def unq(s):
    # a TLA+ string literal as printed by TLC -> python string
    return json.loads(s)


def gen_scenarios(work, module, consts, num, depth, seed, tag, prefix, timeout=600, invariant="Emitted",
                  spec="GenSpec", defs=None):
    """consts: plain cfg constants; defs: constants given as TLA+ expressions
    (tuples cannot be written in a cfg file), substituted through a wrapper module"""
    cfg = "SPECIFICATION %s\nCONSTANTS\n" % spec
    for k, v in consts.items():
        cfg += "  %s = %s\n" % (k, v)
    if defs:
        wrap = "G" + re.sub(r"\W", "", tag)
        body = "---- MODULE %s ----\nEXTENDS %s\n" % (wrap, module)
        for k, v in defs.items():
            body += "def_%s == %s\n" % (k, v)
            cfg += "  %s <- def_%s\n" % (k, k)
        open(work.path(wrap + ".tla"), "w").write(body + "====\n")
        module = wrap
    cfg += "INVARIANT %s\nCHECK_DEADLOCK FALSE\n" % invariant
    rc, out, wall = tlc(work, module, cfg,
                        ["-simulate", "num=%d" % (num * 3), "-depth", str(depth + 3), "-seed", str(seed)],
                        timeout, workers=1, tag=tag)
    if "Error:" in out:
        raise Infra("scenario generation failed (%s):\n%s" % (tag, out[-3000:]))
    scns, seen = [], set()
    for m in re.finditer(r'<<"SCN", (".*")>>', out):
        try:
            sc = json.loads(unq(m.group(1)))
        except Exception as e:  # noqa
            raise Infra("cannot parse generated scenario: %s" % e)
        # TLC's simulator revisits the tail of a behaviour: scenarios that differ only in
        # their last two inputs count as one
        st = sc.get("steps") or []
        key = hashlib.sha1(json.dumps([sc.get("cfg"), sc.get("rt"), st[:max(1, len(st) - 2)]], sort_keys=True).encode()).hexdigest()
        if key in seen:
            continue
        seen.add(key)
        sc["id"] = "%s%04d" % (prefix, len(scns) + 1)
        scns.append(sc)
    if not scns:
        raise Infra("generator %s produced nothing:\n%s" % (tag, out[-2000:]))
    log("generated %d scenarios (%s, %.1fs)" % (len(scns), tag, wall))
    return scns


# ---------------------------------------------------------------------------
# leg 2: execution on the real code, with crash isolation

def run_exec(work, binary, scenarios, tag, test="TestExec", timeout=900, extra_env=None):
    """returns (tracefile, crashes); crashes = [{scn, index, stderr}]"""
    scnfile = work.path(tag + ".scn.ndjson")
    with open(scnfile, "w") as f:
        for sc in scenarios:
            f.write(json.dumps(sc) + "\n")
    outfile = work.path(tag + ".trace.ndjson")
    for p in (outfile, outfile + ".progress"):
        if os.path.exists(p):
            os.remove(p)
    crashes = []
    skip = 0
    t0 = time.time()
    while skip < len(scenarios):
        env = goenv()
        env.update({"VERIF_SCN": scnfile, "VERIF_OUT": outfile, "VERIF_SKIP": str(skip)})
        if extra_env:
            env.update(extra_env)
        try:
            r = subprocess.run([binary, "-test.run", "^" + test + "$", "-test.count=1", "-test.timeout", "0"],
                               cwd=work.dir, env=env, capture_output=True, text=True, timeout=timeout)
        except subprocess.TimeoutExpired:
            raise Infra("executor exceeded its wall budget (%ss)" % timeout)
        prog = open(outfile + ".progress").read().split() if os.path.exists(outfile + ".progress") else []
        if r.returncode == 0 and prog and prog[0] == "done":
            break
        if not prog or prog[0] == "done":
            raise Infra("executor died without progress record:\n" + (r.stdout + r.stderr)[-3000:])
        idx = int(prog[0])
        err = r.stdout + r.stderr
        if r.returncode in (-9, 137):
            raise Infra("executor killed (out of memory?)")
        why = [l for l in err.splitlines() if l.startswith("panic:") or l.startswith("fatal error:")][:2]
        crashes.append({"scn": scenarios[idx - 1]["id"], "index": idx, "stderr": "\n".join(why) + "\n...\n" + err[-6000:]})
        log("executor crashed in scenario %s" % scenarios[idx - 1]["id"])
        # drop the partial trace of the crashed scenario
        keep = []
        for line in open(outfile):
            try:
                if json.loads(line).get("scn") != scenarios[idx - 1]["id"]:
                    keep.append(line)
            except Exception:
                pass
        open(outfile, "w").writelines(keep)
        skip = idx
        hangs = sum(1 for c in crashes if "verif watchdog" in c["stderr"])
        if len(crashes) >= 8 or hangs >= 2:
            break
    log("executed %d scenarios in %.1fs (%d crashes)" % (len(scenarios), time.time() - t0, len(crashes)))
    return outfile, crashes


# ---------------------------------------------------------------------------
# leg 3: trace validation

def read_trace(path):
    evs = []
    for line in open(path):
        line = line.strip()
        if line:
            evs.append(json.loads(line))
    return evs


def split_by_scn(evs):
    groups, order = {}, []
    for e in evs:
        if e["scn"] not in groups:
            groups[e["scn"]] = []
            order.append(e["scn"])
        groups[e["scn"]].append(e)
    return groups, order


def validate(work, module, spec, consts, tracefile, tag, explain=False, timeout=900, extra_cfg="", post="TraceAccepted"):
    cfg = "SPECIFICATION %s\nCONSTANTS\n" % spec
    c = dict(consts)
    c["TraceFile"] = '"%s"' % tracefile
    c["Explain"] = "TRUE" if explain else "FALSE"
    for k, v in c.items():
        cfg += "  %s = %s\n" % (k, v)
    cfg += "POSTCONDITION %s\nCHECK_DEADLOCK FALSE\n%s" % (post, extra_cfg)
    rc, out, wall = tlc(work, module, cfg, [], timeout, workers=1, tag=tag,
                        javaopts="-Dtlc2.tool.queue.IStateQueue=StateDeque -Xss512m")
    m = re.search(r"The depth of the complete state graph search is (\d+)", out)
    depth = int(m.group(1)) if m else None
    accepted = rc == 0 and "Error:" not in out
    if not accepted and depth is None:
        raise Infra("trace validation broke (%s):\n%s" % (tag, out[-3000:]))
    if not accepted and "is false" not in out and "MISMATCH" not in out and "Postcondition" not in out:
        raise Infra("trace validation error (%s):\n%s" % (tag, out[-3000:]))
    return accepted, depth, out, wall


def compact(m):
    """a message record without its default-valued fields"""
    return {k: v for k, v in m.items() if v not in (0, "", [], {}, None)}


def compact_input(i):
    o = {k: v for k, v in i.get("o", {}).items() if v not in (0, "", [], False, None)}
    d = {k: v for k, v in i.items() if k not in ("o", "join", "f", "hm", "with", "hello", "resp") and v not in (0, "", [], None)}
    if i.get("op") == "hello":
        d["hello"] = {k: v for k, v in (i.get("hello") or {}).items() if v not in (0, "", [], False, None)}
    if i.get("op") == "auth":
        d["resp"] = i.get("resp")
    if (i.get("hm") or {}).get("t"):
        d["hm"] = i["hm"]
    if i.get("with"):
        d["with"] = compact_input(i["with"])
    for u in ("uri", "uri2"):
        if u in d:
            d[u] = "".join(d[u])
    f = {k: v for k, v in (i.get("f") or {}).items() if v not in (0, "", [], False, None)}
    if f:
        d["f"] = f
    if o:
        d["o"] = o
    if i.get("op") == "join":
        d["join"] = i.get("join")
    return d


def scenario_story(events, upto=None):
    """compact text of a recorded scenario (inputs and what each session received)"""
    lines = []
    for n, e in enumerate(events, 1):
        if e["ev"] == "reset":
            lines.append("%2d reset %s" % (n, json.dumps(e["cfg"])))
            continue
        lines.append("%2d %s" % (n, json.dumps(compact_input(e["in"]))))
        for so in e["out"]:
            for m in so["m"]:
                c = compact(m)
                for f in ("u", "v", "w"):
                    if f in c:
                        c[f] = "".join(c[f])
                lines.append("      -> %s %s" % (so["s"], json.dumps(c)))
        if upto and n >= upto:
            break
    return "\n".join(lines)


def explain_text(xout):
    mm = re.search(r'<<"MISMATCH", (".*")>>', xout)
    if not mm:
        return {"raw": xout[-2500:]}
    try:
        d = json.loads(unq(mm.group(1)))
    except Exception:
        return {"raw": mm.group(0)[:2500]}
    exp = d.get("expected", {})
    if isinstance(exp, list):
        exp = {}
    out = {"line": d.get("line"), "expected": {}, "logged": {}}
    if "snapshot" in d:
        out["snapshot"] = {e["k"]: e["n"] for e in d["snapshot"] if e["n"] != 0}
        out["goroutines_excess"] = d.get("gor")
        out["joined_in_spec"] = d.get("joined")
    for s, ms in (exp.items() if isinstance(exp, dict) else []):
        if ms:
            out["expected"][s] = [compact(m) for m in ms]
    for e in d.get("logged", []):
        if e["m"]:
            out["logged"][e["s"]] = [compact(m) for m in e["m"]]
    return out


def validate_all(work, module, spec, consts, tracefile, tag, max_viol=5, story=None, explain=None):
    """validates a concatenated trace; on rejection isolates the failing
    scenario, explains it, removes it and continues.  Returns
    (n_accepted_scenarios, n_events, failures[list of dict])"""
    evs = read_trace(tracefile)
    groups, order = split_by_scn(evs)
    failures = []
    cur = list(order)
    rounds = 0
    total_events = 0
    while cur:
        rounds += 1
        f = work.path("%s.r%d.ndjson" % (tag, rounds))
        with open(f, "w") as fh:
            for s in cur:
                for e in groups[s]:
                    fh.write(json.dumps(e) + "\n")
        accepted, depth, out, wall = validate(work, module, spec, consts, f, "%s-r%d" % (tag, rounds))
        n = sum(len(groups[s]) for s in cur)
        if accepted:
            total_events += n
            break
        # failing line = depth (1-based): lines consumed = depth-1
        line = depth
        acc = 0
        bad = None
        for s in cur:
            if acc + len(groups[s]) >= line:
                bad = s
                break
            acc += len(groups[s])
        if bad is None:
            raise Infra("cannot locate failing scenario (depth %s of %s)" % (depth, n))
        step = line - acc
        # explain
        fe = work.path("%s.x%d.ndjson" % (tag, rounds))
        with open(fe, "w") as fh:
            for e in groups[bad]:
                fh.write(json.dumps(e) + "\n")
        _, _, xout, _ = validate(work, module, spec, consts, fe, "%s-x%d" % (tag, rounds), explain=True)
        failures.append({"scn": bad, "step": step, "event": groups[bad][step - 1] if step - 1 < len(groups[bad]) else None,
                         "explain": (explain or explain_text)(xout), "story": (story or scenario_story)(groups[bad], step)})
        log("trace of scenario %s rejected at its line %d" % (bad, step))
        total_events += acc
        cur = cur[cur.index(bad) + 1:]   # earlier ones were accepted in this round
        if len(failures) >= max_viol:
            break
    return len(order) - len(failures), total_events, failures


# ---------------------------------------------------------------------------
# known findings, replays, evidence

def known_findings(prop):
    out = []
    p = os.path.join(VERIF, "known_findings.jsonl")
    if os.path.exists(p):
        for line in open(p):
            line = line.strip()
            if line and not line.startswith("#"):
                k = json.loads(line)
                if k.get("property") == prop:
                    out.append(k)
    return out


def write_replay(prop, n, data):
    d = os.path.join(VERIF, "replays")
    os.makedirs(d, exist_ok=True)
    p = os.path.join(d, "%s-%s-%d.json" % (prop, time.strftime("%H%M%S"), n))
    json.dump(data, open(p, "w"), indent=1)
    return p


def write_evidence(prop, tier, seed, level, coverage, assumptions, wall, violations):
    d = os.path.join(VERIF, "evidence")
    if REPO != "/repo":
        d = os.path.join(VERIF, "work", "evidence-scratch")   # runs against a scratch worktree are not evidence
    os.makedirs(d, exist_ok=True)
    ev = {"property_id": prop, "tier": tier, "seed": seed, "level": level, "coverage": coverage,
          "assumptions": assumptions, "wall_s": round(wall, 1), "violations": violations}
    json.dump(ev, open(os.path.join(d, prop + ".json"), "w"), indent=1)
