#!/bin/sh
# runs every registered quick check with several seeds; prints one line per run
cd "$(dirname "$0")/.."
for seed in ${SEEDS:-1 2 3}; do
  for p in $(python3 -c "import json;print(' '.join(c['property_id'] for c in json.load(open('MANIFEST.json'))['checks']))"); do
    out=$(VERIF_SEED=$seed ./bin/check $p ${TIER:-quick} 2>&1); rc=$?
    echo "$p seed=$seed rc=$rc $(echo "$out" | grep -E 'VIOLATION|KNOWN-FINDING|INCONCLUSIVE' | head -3 | tr '\n' ' ')"
  done
done
