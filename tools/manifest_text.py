"""Texts of MANIFEST.json (kept apart from the machinery)."""

TL = ("TLA+ model-based verification: (1) TLC checks the property's invariants exhaustively on spec/MC.tla (Core.tla over small "
      "domains, properties stated over client-side monitors); (2) TLC -simulate of spec/Gen.tla generates input scenarios that are "
      "executed on the real router (built from /repo's working tree, tag verif) inside testing/synctest bubbles; (3) the recorded "
      "trace of every scenario (every message every session received after every input, with virtual timestamps) is validated by "
      "TLC against spec/Trace.tla, i.e. must be a behaviour of Core.tla with the implementation's free choices bound. ")

NOTE = ("Bounded: <= 4 sessions, scenarios of <= 20 inputs over the URI universe of Gen.tla, leg 1 depth as recorded in the evidence. "
        "Trusted: TLC, the abstraction alpha in harness/exec.go, testing/synctest quiescence and virtual time, sequential steps "
        "(one input, run to quiescence); schedules are covered by the C06-C08 checks. ")

TEXT = {
    "C01": dict(ref="DESIGN.md 4 C01", technique="TLC model checking + TLC-generated scenarios replayed on the router + TLC trace validation",
                level=TL + "For C01 the compared projection is SUBSCRIBED/UNSUBSCRIBED/PUBLISHED/EVENT/ERROR(SUBSCRIBE, UNSUBSCRIBE, PUBLISH) "
                "for every session (absence included: quiescence is decidable in the bubble).",
                note=NOTE + "Empty eligible lists are left open (statement silent)."),
    "C02": dict(ref="DESIGN.md 4 C02", technique="TLC model checking + TLC-generated scenarios replayed on the router + TLC trace validation",
                level=TL + "For C02 the compared projection is RESULT and ERROR(CALL/CANCEL) at every session; leg 1 checks the reply monitor "
                "(progress* final, no stray reply), Owed and NoOrphan for every interleaving of call/cancel/yield/error/timer/leave.",
                note=NOTE + "Callers keep reading (stalled callers are C07). Progressive call invocations (bag pci), payload passthru mode (bag ppt, MC kind ppt) and a caller that momentarily stops reading while the callee answers finally (scripted bag retryseq: the result-retry path) are generated."),
    "C03": dict(ref="DESIGN.md 4 C03", technique="TLC model checking + TLC-generated scenarios replayed on the router + TLC trace validation",
                level=TL + "For C03 the projection is REGISTERED/UNREGISTERED/INVOCATION/ERROR(REGISTER, UNREGISTER) and the replies; the "
                "registration chosen, the callee and the invocation id are bound to the logged values and must be a best match, an eligible "
                "callee under the policy (round-robin = cyclic successor while membership is unchanged) and fresh; leg 1 also runs with progressive call invocations (MC kind pci: "
                "first, further and final chunks, chunks after UNREGISTER or naming another procedure; C03_Chunks: same callee, invocation id and registration).",
                note=NOTE + "Random policy is checked for membership only."),
    "C05": dict(ref="DESIGN.md 4 C05", technique="TLC model checking + crash-point scenarios replayed on the router + TLC trace validation with table snapshot",
                level=TL + "For C05 every scenario ends with all sessions leaving in the three client-visible ways, a two hour advance of the virtual "
                "clock and the verif snapshot: every realm/broker/dealer table and the router goroutine count must be back at the baseline taken "
                "right after router start; all message classes are compared so that nothing is routed to a departed session.",
                note=NOTE + "Kills through the meta API and testaments are added with the meta family."),
    "C13": dict(ref="DESIGN.md 4 C13", technique="TLC model checking + TLC-generated scenarios with virtual time replayed on the router + TLC trace validation",
                level=TL + "For C13 the projection is INTERRUPT (mode, reason, count) at callees and RESULT/ERROR at callers with their virtual "
                "timestamps: the generator advances the clock to deadline-1, deadline and deadline+1.",
                note=NOTE),
}

TEXT["C18"] = dict(ref="DESIGN.md 4 C18", technique="TLC model checking + TLC-generated scenarios (meta calls, kills, testaments) replayed on the router + TLC trace validation",
    level=TL + "For C18 every meta procedure is an operator over the specification state (Core.tla MetaCallFx) and every meta event an output of the "
    "action that changes the state; scenarios interleave meta calls, kills and testaments with subscribe/register churn; compared: RESULT/ERROR of "
    "wamp.* calls, EVENTs on wamp.* topics (with the orders on_create<on_subscribe/on_register, on_unsubscribe/on_unregister<on_delete), GOODBYE/CLOSED at victims.",
    note=NOTE + "Concurrently ending victims of one kill are compared on GOODBYE/CLOSED only. `created` timestamps, modify_details and meta_strict are not compared.")
TEXT["C20"] = dict(ref="DESIGN.md 4 C20", technique="TLC model checking + TLC-generated scenarios (history configs, publish sequences, filters) replayed on the router + TLC trace validation",
    level=TL + "For C20 leg 1 checks hist[k] = last N unrestricted matching publications for every interleaving of publish/subscribe/unsubscribe/leave; "
    "scenarios run against realms configured with exact/prefix/wildcard history and call wamp.subscription.get_events with every single filter; publication "
    "ids never observed before are bound when get_events first shows them.",
    note=NOTE + "reverse+limit combinations are not generated (statement leaves open which end is cut); callers are in-process peers, the serialised encodings of filter arguments belong to the C15 transport family.")

TEXT["C10"] = dict(ref="DESIGN.md 4 C10", technique="TLC model checking (action property) + TLC-generated scenarios with table-driven authorizers replayed on the router + TLC trace validation",
    level=TL + "For C10 the realm is configured with a table-driven Authorizer (allow/deny/fail/rewrite per message type and sender class, with and without "
    "RequireLocalAuthz); the specification's gate decides per message whether the action or the refusal (state unchanged, one ERROR of the request's type "
    "and id, nothing for an unacknowledged PUBLISH) applies; leg 1 checks that as an action property; all message classes are compared so that a refused "
    "request causing any event, invocation or meta event is seen.",
    note=NOTE + "Remote sessions are in-process peers reporting IsLocal()=false with ticket authentication. Authorizers that mutate the session are not generated.")
TEXT["C12"] = dict(ref="DESIGN.md 4 C12", technique="TLC model checking + TLC-generated scenarios (disclosure options x recipient features, poisoning recipients) replayed on the router + TLC trace validation",
    level=TL + "For C12 the full details of every EVENT and INVOCATION are compared (class details), recipients with every feature combination are "
    "co-subscribed exactly/by prefix/by wildcard, in-process recipients overwrite details and payload of everything they received (so shared memory "
    "shows up at co-recipients, in later deliveries and in retained history), network-style sessions carry transport.auth data that must not appear in "
    "on_join or wamp.session.get.",
    note=NOTE + "A trusted originator asking disclose_me in a non-disclosing realm is treated as the code does (refused); the statement leaves it open.")

TEXT["C11"] = dict(ref="DESIGN.md 4 C11", technique="TLC-generated scenarios run simultaneously in several realms of one router + per-realm TLC trace validation (non-interference as explainability)",
    level=TL + "For C11 two or three independently generated scenarios run interleaved in different realms of one router (one static, one added at run time, "
    "one created from the realm template; one is removed in the middle) with identical URIs, request ids and colliding subscription/registration ids. "
    "Each realm's observations are validated against Core.tla given only that realm's inputs: anything leaking in or out of a realm makes its trace "
    "inexplicable; messages arriving in a realm without input are logged as input-less steps, which the specification rejects.",
    note=NOTE + "In the specification realms are disjoint state records, so isolation holds there by construction; the check is the conformance leg.")

TEXT["C04"] = dict(ref="DESIGN.md 4 C04", technique="TLC enumeration of hostile inputs (spec/Hostile.tla) replayed on the router in isolated workers + TLC trace validation of the bystanders' probes",
    level="spec/Hostile.tla enumerates message template x field/option position x value kind x session phase (plus wrong-role and unknown message types, "
    "abrupt disconnects, repeated requests, offenders without announced features); TLC lists all mutants, each is sent to the real router by an offender "
    "session inside a synctest bubble, in worker processes whose death (panic, fatal runtime error) is the crash verdict; afterwards bystander sessions on "
    "disjoint URIs publish, call, yield and query wamp.session.count and the recorded trace must be a behaviour of Core.tla with the offender as the only "
    "unobserved (havoc) session.",
    note=NOTE + "Ill-typed message *fields* and byte-level hostility need a serializer and belong to the transport family (C15); data races are looked for by the "
    "-race variant of the concurrency checks. Structural enumeration, not all byte strings.")

CONC = ("Leg 1 for this property is spec/Conc.tla, the PlusCal skeleton of the realm's goroutines and channels (session handlers, broker, dealer, realm, "
        "call timer, attacher, closer, clients that may stop reading): TLC explores every interleaving of a small population; the named deviations that "
        "reproduce the defects found (now fixed) are each re-checked to be caught, so the invariants are not vacuous. ")
TEXT["C06"] = dict(ref="DESIGN.md 4 C06", technique="TLC model checking of the PlusCal goroutine skeleton + crash-point scenarios (Close/RemoveRealm at every kind of point, concurrent inputs, gate-held handshakes) replayed on the router + TLC trace validation",
    level=CONC + "Invariants: no send on / close of a closed channel, nothing of the router left when Close has returned, every started session closed; liveness: Close returns. "
    "Conformance: every generated scenario is cut at a seeded point where Router.Close or RemoveRealm is called, in most cases while the next input, or a new "
    "handshake (optionally held at the verif gate right before its WELCOME) is in flight; then attach attempts, a two hour advance of the virtual clock (every "
    "timer that was pending fires) and the router goroutine count. TLC validates: the call returned, every attached session saw GOODBYE system_shutdown or its "
    "transport closed and nothing after, later attaches ended with ABORT/error, no router goroutine is left; a dead worker is a crash verdict.",
    note=NOTE + "Real-code schedules are sampled (the Go scheduler inside the bubble, plus the gate for the one window TLC pointed at); exhaustive interleavings only on Conc.tla.")
TEXT["C07"] = dict(ref="DESIGN.md 4 C07", technique="TLC model checking of the PlusCal goroutine skeleton (bounded queues, wedge freedom as liveness) + stalled-client scenarios and concurrent bursts replayed on the router + TLC trace validation",
    level=CONC + "Invariants: queues bounded, no panic; liveness: the broker always finishes the action it holds whatever the clients do, Close returns. Conformance: Core.tla "
    "models per-session bounded queues with drop-on-full, clients that stop and resume reading, and the result-retry exception exactly (retry instants start+2^k-1 ms, "
    "cancel at the first attempt after 60 s); scenarios stall every kind of session with queue sizes 1, 2 and 64 and compare what every other session receives, "
    "with virtual timestamps (no delay); publication bursts from concurrent senders must be received completely by every reading session.",
    note=NOTE + "A session that does not read sends nothing in generated scenarios (ids in queued replies cannot be bound). Deadlock freedom of the real binary is sampled; exhaustive on Conc.tla.")
TEXT["C08"] = dict(ref="DESIGN.md 4 C08", technique="TLC model checking of the PlusCal goroutine skeleton (per-publisher order) + concurrent bursts replayed on the router + TLC validation of every receiver's log against the C08 orders",
    level=CONC + "Invariant: events of one publisher reach each subscriber in publication order (violated by the DevAsyncPublish deviation). Conformance: bursts - "
    "several sessions send numbered publications, calls (answered by auto-responding callees with numbered progressive results) and subscribe/unsubscribe churn "
    "concurrently on real goroutines; TLC checks on every receiver's recorded log: per (publisher, topic, subscription) publication order, per caller call order at the callee, "
    "progressive results in order before the final one, EVENT only between SUBSCRIBED and UNSUBSCRIBED, INVOCATION only between REGISTERED and UNREGISTERED.",
    note=NOTE + "Schedules are those the Go scheduler produces in the bubble (several seeds); the oracle is exhaustive over whatever schedule occurred.")

TEXT["C19"] = dict(ref="DESIGN.md 4 C19", technique="TLA+ reference rules (URI.tla, IDs.tla) model checked against each other + exhaustive bounded enumeration of inputs evaluated by the real functions + TLC validation of every logged application",
    level="The rule of the statement is written component-wise in spec/URI.tla (no regular expression) and as symbolic id arithmetic in spec/IDs.tla (ids = base + offset with "
    "base 0 or 2^53, exact under the bound). Leg 1 (MCFuncs.tla): TLC checks the rules against each other over every string up to length 4 and every URI/pattern pair "
    "(validity lattice, exact meaning, matching sanity) and explores the request id protocol (sender issuing ids with skips, receiver window, replay) around the wrap. "
    "Conformance: the harness applies ValidURI in all six modes, PrefixMatch, WildcardMatch, IsNewRecvID/UpdateLastRecvID, IDGen.Next (positioned by the verif hook), AsID for every Go "
    "number type and GlobalID of the current tree to an exhaustively enumerated bounded input space plus seeded longer inputs, logs input and result, and TLC (Funcs.tla) evaluates the "
    "rule on every logged line; any disagreeing line is a violation with the input as replay.",
    note="Bounded: strings up to length 4 (quick) / 6 (thorough) over one representative per character class, seeded URIs up to ~25 characters, pairs over {a b .} up to length 4/5, "
    "id offsets within +-1000 of 0 and 2^53. Non-ASCII white space and fractional floats as ids are left open (statement silent). Trusted: TLC, the symbolic id conversion in harness/funcs_test.go.")

TEXT["C09"] = dict(ref="DESIGN.md 4 C09", technique="TLC model checking of the handshake over transcripts (MCHs.tla) + TLC-generated handshake scenarios with real authenticators and literal replays executed on the router + TLC trace validation",
    level="The handshake is part of Core.tla (HelloFx, AuthFx, expiry, RejectFx) with abstract crypto: a response is [key, challenge-of-which-handshake]. Leg 1 (MCHs.tla): TLC explores every "
    "handshake a second peer can attempt after a first peer's handshake - any first message, realm, roles, authmethods list, authid, local/remote, any response including signatures made over the other "
    "peer's challenge, timeouts - against every combination of configured authenticators, and checks the property stated declaratively over transcripts (WELCOME only if justified, attached iff welcomed, "
    "rejected peers inert, identity router-assigned); the deviation that models the cryptosign replay defect must be caught. Conformance: TLC -simulate of Gen.tla (mode hs) generates handshake scenarios "
    "over realms configured with real anonymous/ticket/wampcra/cryptosign authenticators; the harness concretises responses with real HMAC / ed25519 signatures over the challenge strings the router "
    "really issued (a replay is the literal earlier signature), smuggles authrole/authprovider/authmethod/session through HELLO details, lets rejected peers keep sending; observers hold wamp.* "
    "subscriptions and query the session meta API; TLC validates every recorded trace (CHALLENGE/WELCOME/ABORT/CLOSED at the peer with virtual timestamps, on_join and wamp.session.* as seen by others).",
    note=NOTE + "Abstract crypto (signatures cannot be forged without the key). A ticket is a static secret: captured tickets are valid by the nature of the method and not counted as replays. In-process "
    "peers without RequireLocalAuth are trusted under the authid they name (documented router policy). The ABORT reason and whether a silent peer is told ABORT are not compared. Template-created realms are covered by C11's harness, not here.")

CLI = ("The client library is specified in spec/Cli.tla as an atomic machine over the awaiting-reply table, the handler tables and the running invocations (one action per "
       "stimulus: API call started by an application goroutine, message from the router, context cancellation, handler returning, time, Close), and its goroutine "
       "skeleton (reply hand-off by rendezvous, response timer, forced end of the receive loop) in the PlusCal module spec/CliConc.tla. Leg 1: TLC explores every interleaving "
       "of CliConc for 2-3 application goroutines and repeated replies: own reply only, at most once, nothing left in the table, and under fairness Close returns, every API "
       "call returns, the receive goroutine never stays stuck in a hand-over; the deviation that models the stranded-reply defect must be caught. Conformance: TLC -simulate of "
       "GenCli.tla generates scripts; the harness plays the router on the other end of a linked peer inside a synctest bubble (virtual time: a reply can be scheduled for exactly "
       "the instant a timeout fires) while real goroutines use the client API; returns of every API call, every message the client emits, every callback, Done() and the return "
       "of Close are logged and the trace is validated by TLC against TraceCli.tla (both outcomes of a coincidence are behaviours; request ids are predicted: 1, 2, 3, ...). ")
TEXT["C16"] = dict(ref="DESIGN.md 4 C16", technique="TLC model checking of the PlusCal client skeleton (CliConc.tla) + TLC-generated client scripts executed against the real client with a scripted router + TLC trace validation (TraceCli.tla)",
    level=CLI + "For C16 the scripts mix concurrent Subscribe/Unsubscribe/Register/Unregister/acknowledged Publish/Call from four goroutines with replies in any order, late, duplicated, of the wrong type, "
    "for unknown ids and at the timeout instant; progressive results with and without a progress handler; context cancellation followed by ERROR, by other replies, by nothing; INVOCATIONs with fresh, "
    "old and unknown ids, with timeouts, INTERRUPTs in any order, handlers answering or not; CallProgressive fed with one to three chunks whose feed ends with progress false, with the option unset or with "
    "an error of the callback (Cli!CallProgFx); SendProgress from running handlers whose caller does or does not receive progress (Cli!SendProgFx).",
    note="Bounded: 4 application goroutines, 2 topics, 2 procedures, scripts of <= 18 steps, response timeouts 200/1000 ms. Trusted: TLC, the scripted router and result classification in "
    "harness/client_test.go, testing/synctest. If the router never answers a CANCEL the reply-timeout error is what the call returns (statement's first sentence). Payload "
    "passthru on the sending side is not generated. Schedules inside a step are those of the Go scheduler in the bubble; exhaustive interleavings only on CliConc.tla.")
TEXT["C17"] = dict(ref="DESIGN.md 4 C17", technique="TLC enumeration of hostile router messages (Hostile.tla) and TLC-generated scripts with hostile steps, disconnects and Close, executed against the real client in isolated workers + TLC trace validation (TraceCli.tla) + TLC model checking of CliConc.tla",
    level=CLI + "For C17 every mutant of spec/Hostile.tla (router-to-client message template x detail/field position x value kind, wrong-role and unknown message types, with and without an abrupt "
    "disconnect) is sent to a client that holds a subscription, a registration and a pending progressive call; afterwards an event, an invocation, the call's results and a publish must work exactly per "
    "Cli.tla and Close must return leaving no client goroutine and no blocked API call; generated scripts add repeated INVOCATIONs of a running invocation, replies at the instant of a timeout, GOODBYE/ABORT/"
    "transport loss at any point and Close with and without a router answer. A dead worker (panic) or a Close that never returns is the crash verdict.",
    note="Bounded as C16. Hostile ids are drawn from a reserved range; what the client answers to a hostile message under that message's own id is not compared (only that everything else still works). "
    "Byte-level hostility needs a serializer and belongs to the transport family (C15). Structural enumeration, not all messages.")

TEXT["C14"] = dict(ref="DESIGN.md 4 C14", technique="TLC enumeration of message and non-message vectors from the codec specification (Codec.tla) executed on the three serializers + TLC validation of every logged round trip",
    level="spec/Codec.tla states the WAMP data model (integers up to 2^53 written symbolically, floats, strings, booleans, null, nested lists and dicts), the 24 message shapes with their "
    "field kinds, the list form (trailing empty payload fields omitted, empty positional arguments kept before keyword arguments) and which lists are not messages. TLC enumerates every message shape "
    "x payload shape, and for every shape and field position a value of every incompatible kind, unknown message codes and non-lists; the harness builds each message from the current tree's wamp "
    "package, round-trips it through the JSON, MessagePack and CBOR serializers (decoding the wire list generically for its length), logs the results in the abstract form, and TLC evaluates on every "
    "line: equal message back from each format, the three formats agree, list length as specified, an error and no message for every non-message. Prefixes and single-octet substitutions of sampled "
    "encodings are fed to Deserialize/DeserializeDataItem: a panic is the crash verdict.",
    note="Bounded: values up to depth 3 over 12 atoms (boundary integers 2^53, 2^53-1, -1, non-ASCII strings, empty containers). The clause 'deserialising arbitrary bytes never panics' is "
    "covered only for the mutation family of model-generated encodings (an explicit-state model cannot enumerate byte strings). Binary values are not generated. Trusted: TLC, the value "
    "normalisation in harness/codec_test.go (integers equal up to numeric representation).")
TEXT["C15"] = dict(ref="DESIGN.md 4 C15", technique="TLC model checking of the rawsocket wire specification (MCWire.tla) and of its two writers (WireConc.tla, PlusCal) + TLC-generated octet-level scenarios and write schedules against the real rawsocket peer, accepting and connecting side + the routing scenarios replayed over rawsocket/websocket x 3 serializers, all validated by TLC",
    level="spec/Wire.tla specifies one rawsocket connection from the wire: the four handshake octets (agreement on serializer and on each side's length limit, clean failure otherwise), frames "
    "(a well-formed message within the announced limit is delivered in order; a frame above the limit, truncated or of reserved type ends that connection and hands the router nothing; PING is answered "
    "by PONG with the same payload), and router-side sends (a message above the client's limit or beyond what the 24 bit length field can carry is dropped whole, the following ones arrive intact). "
    "nexus is the accepting side (Wire!Handshake) or the connecting side (Wire!ServerReply: the harness answers ConnectRawSocketPeer octet by octet over loopback TCP). "
    "Leg 1 (MCWire.tla): TLC checks prefix-closed FIFO delivery in both directions, limit agreement and that an ended connection stays ended over every sequence of 5-6 wire events, both roles; "
    "WireConc.tla (the send and the receive goroutine writing header and payload of their frames to one connection, one action per write call): FramesIntact, InOrder, termination; the deviation "
    "without mutual exclusion must be caught. Conformance (a'): the write schedules TLC enumerates from WireConc.tla are imposed on the real peer through a gated connection (each Write call waits for "
    "the harness's grant); the client must read whole frames, messages in order, PONGs in order (Wire!Race). Conformance (c): spec/Srv.tla specifies the router's network front ends as a connecting "
    "client sees them (origin rule, subprotocol selection, serializer and websocket frame type per subprotocol, the listener's receive limit in the rawsocket handshake); GenSrv.tla scenarios run "
    "against real WebsocketServer / RawSocketServer listeners on the loopback interface and are validated against TraceSrv.tla. Conformance (a): "
    "TLC -simulate of GenWire.tla generates octet-level scenarios (sizes at limit-1, limit, limit+1 for several negotiated limits, header and payload in one or two writes, lists that only resemble "
    "messages) executed against transport.AcceptRawSocket over an in-memory pipe; TLC validates octets read, messages delivered and connection end against TraceWire.tla. Conformance (b), "
    "interchangeability: routing scenarios of the core family (pub/sub, RPC, cancel, meta API, event history, testaments, disclosure) run with every network session attached over rawsocket or "
    "websocket with JSON, MessagePack or CBOR and must be accepted by the same Trace.tla as in-process runs (hence equal up to numeric representation).",
    note=NOTE + "The websocket peer is driven through an in-memory implementation of transport.WebsocketConnection; gorilla's framing, TLS and the HTTP upgrade are not modelled. Scenarios with nexus as the connecting side and the write-schedule scenarios run in real time (a goroutine "
    "waiting for a socket or a mutex is not durably blocked in a bubble); step ends are detected by marker messages in both directions, never by a timeout on correct code. Websocket peers run with and "
    "without keep-alive; in-process publishers also hand over payloads no serializer can encode (dropped whole for network receivers only). What a departing network session still receives in the step it leaves is compared on its session-control messages only. "
    "16 MiB frames only in the thorough tier.")

# additions made while the generator grew (rounds 3 and 4 of the seeded changes)
_MORE = {
    "C01": " Further bags: payload passthru mode (publishers with and without the feature), wamp.session.modify_details changing the attributes the filters read, sessions that announce only some roles.",
    "C04": " Besides the hostile messages: ordinary come-and-go traffic of sessions that announce only some roles (churn bag), because 'whenever they disconnect' is part of the statement.",
    "C05": " Realms with event history (subscriptions that exist without subscribers), progressive call invocations and payload passthru violations (sessions ended by the router) are among the scenarios.",
    "C07": " Scripted sequences: a subscriber stops reading, its queue fills, it is killed through the meta API (killstall); a caller stops reading while its callee answers (retryseq); kill-mode cancel towards a callee whose queue is full (stallseq).",
    "C08": " Mixed bursts contain a caller looping on the procedure another session keeps registering and unregistering (REGISTERED before the first INVOCATION, none after UNREGISTERED under every interleaving the scheduler produces) and bursts towards reading sessions with queues of 1-2 messages (what arrives is in order).",
    "C14": " The MessagePack handle is re-created in the middle of the run (InitMsgpackHandle, the documented way to register extensions late); dicts must come back with string keys.",
    "C17": " Scenarios in which the scripted router stops reading while invocation handlers run (Cli!DeafFx: what the client sends is stuck in the send until it ends) and in which results keep streaming for a cancelled call at intervals shorter than the response timeout.",
    "C18": " Realms with event history watched through the subscription meta events (histmeta bag); in-process callers scribble over every meta result they receive (deep poisoning), which must not change what the router holds; wamp.session.modify_details.",
    "C20": " Limit is combined with topic / before / until filters that reject some of the newest entries.",
}
for _k, _v in _MORE.items():
    TEXT[_k]["level"] = TEXT[_k]["level"] + _v

NOT_APPLICABLE = {}

ENGINES = [
    {"name": "codec", "path": "/verif/tools/fam_codec.py; spec/Codec.tla; harness/codec_test.go",
     "serves_properties": ["C14"], "kind_free_text": "TLC-enumerated message / non-message vectors run through the three serializers, results validated by TLC"},
    {"name": "wire", "path": "/verif/tools/fam_wire.py; spec/Wire.tla MCWire.tla WireConc.tla GenWire.tla TraceWire.tla Srv.tla GenSrv.tla TraceSrv.tla Trace.tla; harness/wire.go wire_test.go srv_test.go",
     "serves_properties": ["C15"], "kind_free_text": "TLC model checking and scenario generation for the rawsocket wire, octet-level executor, routing scenarios over network transports, TLC trace validation"},
    {"name": "client", "path": "/verif/tools/fam_client.py; spec/Cli.tla GenCli.tla TraceCli.tla CliConc.tla Hostile.tla; harness/client_test.go",
     "serves_properties": ["C16", "C17"], "kind_free_text": "TLC model checking of the PlusCal client skeleton, TLC script generation, execution against the real client with a scripted router under synctest, TLC trace validation"},
    {"name": "funcs", "path": "/verif/tools/fam_funcs.py; spec/URI.tla IDs.tla MCFuncs.tla Funcs.tla; harness/funcs_test.go",
     "serves_properties": ["C19"], "kind_free_text": "TLA+ reference rules, exhaustive bounded input enumeration on the real functions, TLC validation of the logged applications"},
    {"name": "hostile", "path": "/verif/tools/families.py run_hostile; spec/Hostile.tla; harness/exec.go hostile()",
     "serves_properties": ["C04"], "kind_free_text": "TLC-enumerated hostile inputs, crash isolation, probe validation against Core.tla"},
    {"name": "core", "path": "/verif/tools/families.py run_core; spec/Core.tla MC.tla Gen.tla Trace.tla; harness/exec.go",
     "serves_properties": ["C01", "C02", "C03", "C05", "C06", "C07", "C08", "C10", "C11", "C12", "C13", "C18", "C20"],
     "kind_free_text": "TLC model checking, TLC scenario generation, replay into the real router under synctest, TLC trace validation"},
]

NOTES = ("All checks: ./bin/check <id> quick|thorough, honour VERIF_SEED. exit 2 = inconclusive (infrastructure), never a violation. "
         "known_findings.jsonl lists fixed defects (33 fix: commits in /repo) and the one known finding (wamp.session.kill_all is silent). "
         "tools/run_seeded.py evaluates the seeded changes of /verif/seeded against the checks in a scratch worktree (VERIF_REPO). DESIGN.md section 0 describes the state as built.")
