"""C16 / C17: the client library (spec/Cli.tla, GenCli.tla, TraceCli.tla, CliConc.tla; harness/client_test.go)."""
import json, os, re, random
from vlib import *  # noqa

CLI_BAG = {
    "api": '<<"api","api","api","reply","reply","reply","reply","sched","adv","adv","cancel","event","inv","release","intr">>',
    "time": '<<"api","api","reply","sched","sched","sched","adv","adv","adv","cancel","cancel","close">>',
    "inv": '<<"api","api","reply","reply","inv","inv","inv","intr","intr","release","release","adv","event","event">>',
    "slowprog": '<<"api","api","reply","reply","reply","reply","slow","slow","cancel","adv","adv">>',
    "dupinv": '<<"api","api","reply","reply","inv","inv","dupinv","dupinv","intr","release","adv","event","event","event">>',
    "hostile": '<<"api","api","reply","reply","hostile","hostile","hostile","hostile","inv","event","adv","disc","close">>',
    # CallProgressive: the call fed chunk by chunk through a callback
    "callp": '<<"callp","callp","api","reply","reply","reply","sched","adv","cancel","inv","release">>',
    # a cancelled call whose router keeps sending results at intervals shorter than the response timeout
    "cancelstream": '<<"api","api","reply","cancel","cancel","stream","stream","stream","advpart","advpart","advpart","adv">>',
    # the router stops reading while invocation handlers run; results get stuck in the send; then it hangs up / the client closes
    "deafrouter": '<<"setup","setup","setup","setup","deaf","deaf","deaf","event","adv","api","reply">>',
    "shutdown": '<<"api","api","api","reply","inv","cancel","sched","adv","disc","disc","close","close">>',
}


def cli_compact(i):
    d = {k: v for k, v in i.items() if k != "hm" and v not in (0, "", False, None)}
    if i.get("op") == "hostile":
        d["hm"] = {k: v for k, v in i["hm"].items() if v not in ("", False)}
    return d


def cli_story(events, upto=None):
    lines = []
    for n, e in enumerate(events, 1):
        if e["ev"] == "reset":
            lines.append("%2d reset response timeout %d ms" % (n, e["rt"]))
            continue
        if e["ev"] == "end":
            lines.append("%2d end: Close returned=%s client goroutines left=%d API calls still blocked=%d" % (n, e["closeret"], e["gor"], e["pending"]))
            continue
        lines.append("%2d t=%d %s" % (n, e["now"], json.dumps(cli_compact(e["in"]))))
        for r in e["ret"]:
            lines.append("      returned: %s" % json.dumps(r))
        for r in e["emit"]:
            lines.append("      client sent: %s" % json.dumps(r))
        for r in e["cb"]:
            lines.append("      callback: %s" % json.dumps(r))
        if e["done"]:
            lines.append("      Done() signalled%s" % (", Close returned" if e["closeret"] else ""))
        if upto and n >= upto:
            break
    return "\n".join(lines)


def cli_explain(xout):
    mm = re.search(r'<<"MISMATCH", (".*")>>', xout)
    if not mm:
        return {"raw": xout[-2000:]}
    try:
        return json.loads(unq(mm.group(1)))
    except Exception:
        return {"raw": mm.group(0)[:2000]}


def cli_shapes(evs):
    shapes = set()
    for e in evs:
        if e["ev"] != "step":
            continue
        shapes.add((e["in"]["op"], e["in"].get("kind", ""), e["in"].get("mk", ""), tuple(sorted(r["out"] for r in e["ret"])),
                    tuple(sorted(r["k"] for r in e["emit"])), tuple(sorted(r["k"] for r in e["cb"])), e["done"]))
    return len(shapes)


def conc_cli_cfg(b, inv, props, devs=()):
    cfg = "SPECIFICATION Spec\nCONSTANTS\n  NApi = %d\n  NReplies = %d\n  CliDeviations = %s\n" % (b["napi"], b["nreplies"], tla_set(devs))
    if inv:
        cfg += "INVARIANTS " + " ".join(inv) + "\n"
    if props:
        cfg += "PROPERTIES " + " ".join(props) + "\n"
    return cfg + "CHECK_DEADLOCK FALSE\n"


CIn0 = {"op": "", "g": "", "kind": "", "name": "", "prog": False, "id": 0, "mk": "", "a": 0, "ms": 0, "mode": "", "inv": 0, "reg": 0,
        "tmo": 0, "how": "", "sub": 0, "hm": {"t": "", "pos": "", "kind": "", "phase": "", "drop": False}}


def cin(**kw):
    d = dict(CIn0)
    d.update(kw)
    return d


def hostile_client_scenarios(work, prop, tier, seed):
    """every mutant of spec/Hostile.tla (Side = client) sent to a client that holds a subscription,
    a registration and a pending call; afterwards a well-formed exchange must still work"""
    import families
    muts, st = families.enumerate_mutants(work, "client")
    rnd = random.Random(seed)
    if tier == "quick":
        by = {}
        for m in muts:
            by.setdefault((m["t"], m["pos"], m["phase"], m["drop"]), []).append(m)
        pick = [rnd.choice(v) for k, v in sorted(by.items())]
        pick += [m for m in muts if m["pos"].startswith("ppt_") or m["pos"] in ("args", "kwargs", "progress", "timeout")]
        seen, muts2 = set(), []
        for m in pick:
            k = json.dumps(m, sort_keys=True)
            if k not in seen:
                seen.add(k)
                muts2.append(m)
        muts = muts2
    scns = []
    for n, m in enumerate(muts):
        target = 3 if (m["t"] == "RESULT" and (m["pos"].startswith("ppt_") or m["pos"] in ("args", "kwargs"))) else 0
        steps = [cin(op="api", g="g1", kind="sub", name="t1"), cin(op="reply", id=1, mk="SUBSCRIBED", a=101),
                 cin(op="api", g="g2", kind="reg", name="p1"), cin(op="reply", id=2, mk="REGISTERED", a=102),
                 cin(op="api", g="g3", kind="call", name="p2", prog=True),
                 cin(op="hostile", hm=m, sub=101, reg=102, id=target, inv=1 if m["t"] == "INVOCATION" and m["pos"] != "request" else 0)]
        if m.get("drop"):
            steps.append(cin(op="drop"))
        steps += [cin(op="event", sub=101, a=9), cin(op="inv", reg=102, inv=2), cin(op="reply", id=3, mk="RESULTP", a=10),
                  cin(op="reply", id=3, mk="RESULT", a=11), cin(op="release", inv=2, how="yield"),
                  cin(op="api", g="g4", kind="pub", name="t1"), cin(op="reply", id=4, mk="PUBLISHED", a=104),
                  cin(op="close", how="reply" if n % 2 else "")]
        scns.append({"id": "%s.hm%04d" % (prop, n + 1), "rt": 1000, "steps": steps})
    return scns, st


def run_client(prop, spec, tier, seed, work, replay):
    binary = build_harness(work)
    consts = {"CliDeviations": tla_set([])}
    violations = []
    st = {"distinct": 0, "generated": 0, "wall_s": 0.0}
    if replay:
        scns = [json.load(open(replay))["scenario"]]
    else:
        # leg 1: the rendezvous / timeout / close skeleton
        cc = spec.get("conc")
        if cc:
            b = cc[tier]
            s1 = model_check(work, "CliConc", conc_cli_cfg(b, cc["inv"], cc.get("props", [])), timeout=3000, tag="cliconc")
            for k in st:
                st[k] += s1[k]
            for dev, what in cc.get("devs", {}).items():
                rc, out, wall = tlc(work, "CliConc", conc_cli_cfg(cc["quick"], cc["inv"], cc.get("props", []), [dev]), [], 1500,
                                    workers=CORES, tag="cliconc-dev-" + dev)
                if what not in out:
                    raise Infra("CliConc.tla: deviation %s is not caught (%s expected; vacuous?)" % (dev, what))
        scns = []
        for gi, g in enumerate(spec["gen"]):
            part = gen_scenarios(work, "GenCli", {"CliDeviations": tla_set([]), "Depth": g["depth"]}, g[tier], g["depth"],
                                 seed * 7919 + gi, "gencli%d" % gi, "%s.%s%d." % (prop, g["bag"], seed), defs={"KindBag": CLI_BAG[g["bag"]]})
            scns += part
        if spec.get("hostile_enum"):
            hs, hst = hostile_client_scenarios(work, prop, tier, seed)
            scns += hs
            for k in ("distinct", "generated"):
                st[k] += hst[k]
    byid = {s["id"]: s for s in scns}
    tf, crashes = run_exec(work, binary, scns, "cli", test="TestCliExec")
    for c in crashes:
        line = next((l for l in c["stderr"].splitlines() if l.startswith("panic:") or l.startswith("fatal error:")), "?")
        site = next((l.strip() for l in c["stderr"].splitlines() if "/client/client.go" in l or "nexus/v3/client" in l), "")
        violations.append({"kind": "crash", "scn": c["scn"], "scenario": byid[c["scn"]], "stderr": c["stderr"],
                           "sig": {"op": "crash", "panic": line},
                           "summary": "the process using the client died or the client hung in scenario %s: %s %s" % (c["scn"], line, site)})
    evs = read_trace(tf)
    ok, nev, fails = validate_all(work, "TraceCli", "TraceSpec", consts, tf, "valcli", story=cli_story, explain=cli_explain)
    known = [k for k in known_findings(prop) if k.get("status") == "known" and k.get("deviation")]
    groups0, _ = split_by_scn(evs)
    for f in fails:
        ev = f.get("event") or {}
        v = {"kind": "trace-rejected", "scn": f["scn"], "scenario": byid[f["scn"]], "step": f["step"], "explain": f["explain"],
             "story": f["story"].split("\n"), "sig": {"op": (ev.get("in") or {}).get("op", ev.get("ev"))},
             "summary": "scenario %s: the recorded execution of the client is not a behaviour of Cli.tla at step %d (%s)" % (
                 f["scn"], f["step"], json.dumps(cli_compact(ev.get("in") or {"op": ev.get("ev")})))}
        for k in known:
            fk = work.path("knowncli.ndjson")
            with open(fk, "w") as fh:
                for e in groups0[f["scn"]]:
                    fh.write(json.dumps(e) + "\n")
            acc, _, _, _ = validate(work, "TraceCli", "TraceSpec", dict(consts, CliDeviations=tla_set([k["deviation"]])), fk, "knowncli")
            if acc:
                v["known"] = k
                break
        violations.append(v)
    if replay:
        return {"violations": violations, "coverage": {}}
    groups, order = split_by_scn(evs)
    bad = {v["scn"] for v in violations}
    good = [s for s in order if s not in bad][:3]
    selftest = "skipped"
    if good:
        sub = json.loads(json.dumps([e for s in good for e in groups[s]]))
        line = None
        for n, e in enumerate(sub):
            if e["ev"] == "step" and e["ret"]:
                e["ret"] = e["ret"][1:]
                line = n + 1
                break
        if line:
            f = work.path("selftestcli.ndjson")
            with open(f, "w") as fh:
                for e in sub:
                    fh.write(json.dumps(e) + "\n")
            accepted, depth, _, _ = validate(work, "TraceCli", "TraceSpec", consts, f, "selftestcli")
            if accepted:
                raise Infra("binding self-test failed: a client trace with a dropped API return was accepted")
            selftest = "trace with one API return removed at line %d rejected at line %s" % (line, depth)
    ops = {}
    for e in evs:
        if e["ev"] == "step":
            ops[e["in"]["op"]] = ops.get(e["in"]["op"], 0) + 1
    cov = {"states": st["distinct"], "transitions": st["generated"], "traces_validated_against_impl": ok,
           "samples": [{"scenario": s, "story": cli_story(groups[s]).split("\n")} for s in good[:2]],
           "evaluations": sum(1 for e in evs if e["ev"] == "step"), "distinct_nontrivial": cli_shapes(evs),
           "rule": "TLC simulation of GenCli.tla (seeded) generates scripts (application goroutines using the API, router replies in any order / late / "
                   "twice / wrong type / exactly at a timeout, invocations, interrupts, hostile messages, disconnects, Close); each runs against the real "
                   "client in a synctest bubble with the harness as router; the recorded trace is validated by TLC against TraceCli.tla; distinct = "
                   "distinct (step kind, returned outcomes, emitted message kinds, callback kinds) combinations",
           "scenarios_generated": len(scns), "trace_events": len(evs), "ops": ops, "binding_selftest": selftest,
           "leg1": {"module": "CliConc.tla", "config": (spec.get("conc") or {}).get(tier), "invariants": (spec.get("conc") or {}).get("inv"),
                    "properties": (spec.get("conc") or {}).get("props"), "wall_s": st["wall_s"]},
           "checker_cmd": "tlc CliConc.tla (leg 1); tlc -simulate GenCli.tla (leg 2); tlc TraceCli.tla (leg 3)", "exhaustive": False}
    return {"violations": violations, "coverage": cov,
            "assumptions": ["small scope: 4 application goroutines, 2 topics, 2 procedures, scripts of <= 22 steps",
                            "the harness router (harness/client_test.go) and its abstraction of API results are faithful",
                            "testing/synctest quiescence and virtual clock", "TLC"]}
