#!/usr/bin/env python3
"""imports seeded changes written by sub-agents (scratch worktree OUT/m<k>/) into /verif/seeded/<prop>-m<k>/"""
import json, os, re, shutil, sys
SRC = "/tmp/mut"
DST = "/verif/seeded"
det = json.load(open(sys.argv[1])) if len(sys.argv) > 1 else {}
for prop in sorted(os.listdir(SRC)):
    out = os.path.join(SRC, prop, "OUT")
    if not os.path.isdir(out):
        continue
    for k in ("m1", "m2"):
        d = os.path.join(out, k)
        if not os.path.exists(os.path.join(d, "patch.diff")):
            continue
        sid = "%s-%s" % (prop, k)
        dst = os.path.join(DST, sid)
        if os.path.exists(os.path.join(dst, "meta.json")) and sid not in det:
            continue
        os.makedirs(dst, exist_ok=True)
        shutil.copy(os.path.join(d, "patch.diff"), os.path.join(dst, "patch.diff"))
        shutil.copy(os.path.join(d, "demo_test.go"), os.path.join(dst, "demo_test.go.txt"))
        notes = open(os.path.join(d, "notes.md")).read() if os.path.exists(os.path.join(d, "notes.md")) else ""
        open(os.path.join(dst, "notes.md"), "w").write(notes)
        first = open(os.path.join(d, "demo_test.go")).readline().strip()
        info = det.get(sid, {})
        meta = {"id": sid, "property": prop,
                "breaks": info.get("breaks", ""), "needs": info.get("needs", ""),
                "author": "independent sub-agent given only the property record and a scratch worktree of /repo",
                "demo": first,
                "confirmed": {"how": "tools/eval_mutant.sh in the scratch worktree: builds; go test ./router/... ./wamp/... ./transport/... ./test/ ./client/ pass with the patch "
                                     "(TestClientRace / TestProgressDisconnect bind a fixed port and fail sporadically when other test runs hold it, with and without the patch); "
                                     "the demonstration fails with the patch and passes without", "demo_fails_with": True, "demo_passes_without": True},
                "detected_by": info.get("detected_by", ""), "first_result": info.get("first", ""),
                "command": "tools/run_seeded.py %s" % sid}
        json.dump(meta, open(os.path.join(dst, "meta.json"), "w"), indent=1)
        print("imported", sid)
