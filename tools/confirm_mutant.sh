#!/bin/sh
# usage: tools/confirm_mutant.sh <worktree> <mutdir> <demo-target-dir-relative> <test-run-regex>
# confirms in the scratch worktree: suite passes with the patch, demo fails with and passes without
wt="$1"; md="$2"; tdir="$3"; rx="$4"
export GOFLAGS=-mod=mod GOPROXY=off
cd "$wt" || exit 2
git checkout -q -- . ; git clean -fdq -e OUT
git apply "$md/patch.diff" || { echo "APPLY-FAIL"; exit 2; }
go build ./... || { echo "BUILD-FAIL"; git checkout -q -- .; exit 1; }
suite=$(go test -vet=off -count=1 -timeout 180s ./router/... ./wamp/... ./transport/... ./test/ ./client/ 2>&1 | grep -E "^(ok|FAIL|---)" | tr '\n' ';')
echo "SUITE(with): $suite"
cp "$md/demo_test.go" "$tdir/zz_demo_test.go"
with=$(go test -vet=off -count=1 -run "$rx" "./$tdir/" 2>&1 | grep -E "^(ok|FAIL|--- FAIL)" | head -5 | tr '\n' ';')
echo "DEMO(with): $with"
git apply -R "$md/patch.diff"
without=$(go test -vet=off -count=1 -run "$rx" "./$tdir/" 2>&1 | grep -E "^(ok|FAIL|--- FAIL)" | head -5 | tr '\n' ';')
echo "DEMO(without): $without"
rm -f "$tdir/zz_demo_test.go"
git checkout -q -- . ; git clean -fdq -e OUT
