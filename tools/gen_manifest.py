#!/usr/bin/env python3
"""Writes /verif/MANIFEST.json from the property table (tools/families.py) and tools/manifest_text.py."""
import json, os, sys, subprocess
sys.path.insert(0, os.path.dirname(os.path.abspath(__file__)))
import families, manifest_text as T

VERIF = os.path.dirname(os.path.dirname(os.path.abspath(__file__)))
allprops = [json.loads(l)["id"] for l in open(os.path.join(VERIF, "properties.jsonl"))]
hooks = subprocess.run(["git", "-C", "/repo", "log", "--format=%h", "--grep=^verif:"], capture_output=True, text=True).stdout.split()
checks = []
for p in allprops:
    if p not in families.PROPS:
        continue
    t = T.TEXT[p]
    checks.append({
        "property_id": p,
        "quick_cmd": "./bin/check %s quick" % p,
        "thorough_cmd": "./bin/check %s thorough" % p,
        "evidence_file": "/verif/evidence/%s.json" % p,
        "replay_cmd_template": "./bin/check %s --replay {path}" % p,
        "engine": families.PROPS[p]["family"],
        "level_claimed": {"category": families.PROPS[p].get("level", "model_checking"), "text": t["level"], "design_ref": t["ref"]},
        "level_note": t["note"],
        "technique": t["technique"],
    })
na = [{"property_id": p, "reason": T.NOT_APPLICABLE.get(p, "no check built yet in this round; planned per DESIGN.md section 4")}
      for p in allprops if p not in families.PROPS]
m = {
    "version": 1,
    "setup_cmd": "./bin/setup",
    "hooks": {
        "guard": "verif",
        "enable": "go test -c -tags verif (harness module with replace github.com/gammazero/nexus/v3 => /repo)",
        "baseline_off_cmd": "cd /repo && GOFLAGS=-mod=mod GOPROXY=off go test -json -vet=off -count=1 -timeout 25m ./...",
        "source_commits": hooks,
        "add_only": True,
    },
    "engines": T.ENGINES,
    "checks": checks,
    "notes": T.NOTES,
    "not_applicable": na,
}
json.dump(m, open(os.path.join(VERIF, "MANIFEST.json"), "w"), indent=1)
print("wrote MANIFEST.json with", len(checks), "checks;", len(na), "not applicable")
