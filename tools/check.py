#!/usr/bin/env python3
"""./bin/check <property> [quick|thorough] | --replay <file>

Decides one property: TLC on the specification (leg 1), TLC-generated
scenarios executed on the real code (leg 2), recorded traces validated by TLC
against the trace specification (leg 3).  exit 0 / exit 1 + VIOLATION line /
exit 2 (infrastructure)."""
import collections
import sys, os, json, time, random, traceback
sys.path.insert(0, os.path.dirname(os.path.abspath(__file__)))
from vlib import *  # noqa
import families


def main():
    args = sys.argv[1:]
    if not args:
        print(__doc__)
        return 2
    prop = args[0]
    tier = os.environ.get("VERIF_TIER", "quick")
    replay = None
    i = 1
    while i < len(args):
        if args[i] in ("quick", "thorough"):
            tier = args[i]
        elif args[i] == "--replay":
            replay = args[i + 1]
            i += 1
        i += 1
    seed = int(os.environ.get("VERIF_SEED", "1"))
    if prop not in families.PROPS:
        print("unknown property", prop)
        return 2
    spec = families.PROPS[prop]
    t0 = time.time()
    work = Work("%s-%s" % (prop, tier))
    try:
        runner = getattr(families, "run_" + spec["family"])
        res = runner(prop, spec, tier, seed, work, replay)
    except Infra as e:
        log("INCONCLUSIVE (infrastructure): %s" % e)
        work.cleanup()
        return 2
    except Exception:
        log("INCONCLUSIVE (internal error):\n" + traceback.format_exc())
        work.cleanup()
        return 2
    wall = time.time() - t0
    # known findings: reported, never violations
    known = known_findings(prop)
    viols = []
    printed = set()
    for v in res["violations"]:
        k = next((k for k in known if k.get("status") == "known" and families.matches_known(k, v)), None)
        if k:
            if id(k) not in printed:
                printed.add(id(k))
                print("KNOWN-FINDING: property=%s %s" % (prop, k["what"]))
        else:
            viols.append(v)
    n = 0
    for v in viols:
        n += 1
        path = write_replay(prop, n, v)
        print("VIOLATION property=%s replay=%s" % (prop, path))
        log("  " + v.get("summary", ""))
    if not replay:
        cov = res["coverage"]
        write_evidence(prop, tier, seed, spec.get("level", "model_checking"), cov, res.get("assumptions", []), wall, len(viols))
    log("%s %s seed=%d: %s in %.1fs" % (prop, tier, seed, "VIOLATION" if viols else "ok", wall))
    work.cleanup()
    return 1 if viols else 0


if __name__ == "__main__":
    sys.exit(main())
