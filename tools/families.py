"""Property table and the per-family runners (DESIGN.md sections 4 and 5)."""
import collections, json, os, random, re, time
from vlib import *  # noqa
from fam_funcs import run_funcs  # noqa
from fam_client import run_client  # noqa
from fam_wire import run_wire  # noqa
from fam_codec import run_codec  # noqa

BAG = {
    "pubsub": '<<"join","sub","sub","unsub","pub","pub","pub","leave">>',
    "rpc": '<<"join","reg","reg","regsh","unreg","call","call","call","cancel","yield","yield","inverr","leave","adv">>',
    "cancel": '<<"join","reg","regsh","call","call","call","cancel","cancel","ckill","ckill","answer","answer","yield","inverr","leave","adv","adv","adv">>',
    "killrpc": '<<"join","join","reg","regsh","call","call","call","kill","kill","kill","answer","leave","adv">>',
    "tst": '<<"join","join","sub","sub","tst","tst","tst","tst","kill","leave","leave","pub","msess">>',
    "shared": '<<"join","join","reg","regsh","regsh","regsh","unregsh","callsh","callsh","callsh","call","yield","leave","adv">>',
    "mixed": '<<"join","sub","unsub","pub","reg","unreg","call","cancel","yield","inverr","leave","adv">>',
    "meta": '<<"join","sub","sub","unsub","reg","reg","unreg","msess","msess","mreg","mreg","msub","msub","leave">>',
    "kill": '<<"join","join","sub","sub","reg","call","tst","tst","kill","kill","msess","leave","pub">>',
    "hist": '<<"join","sub","unsub","pub","pub","pub","pub","hist","hist","hist","adv","leave">>',
    "disc": '<<"join","join","sub","sub","sub","pub","pub","pub","reg","reg","call","call","msess","leave">>',
    "stall": '<<"join","sub","pub","pub","reg","reg","call","call","call","yield","yield","yield","stall","stall","resume","adv","adv","ckill","cancel">>',
    "authzrpc": '<<"join","join","reg","reg","call","call","call","inverr","inverr","inverr","yield","cancel","leave">>',
    "stallkill": '<<"join","reg","reg","sub","sub","call","call","stall","stall","pub","pub","pub","ckill","ckill","adv","resume","yield">>',
    # a script (the first two inputs are joins anyway): a callee that also subscribes is called, stops reading, its queue fills, ...
    # a subscriber stops reading, its queue fills, it is killed through the meta API; everybody else goes on
    "killstall": '<<"join","join","join","sub","wsub","stall","pub","pub","pub","kill","msess","pub","adv","msess","leave">>',
    "stallseq": '<<"join","join","reg","sub","call","stall","pub","pub","ckill","call","msess","adv","resume","yield","pub","cancel","adv","leave">>',
    # a caller stops reading, its callee yields (held back in the retry loop), ...
    "retryseq": '<<"join","join","join","reg","call","stallc","yield","yield","yield","pub","msess","adv","resume","call","yield","leave">>',
    "pci": '<<"join","join","reg","reg","unreg","pcall","pcall","pcall","pcall","yield","yield","inverr","cancel","call","leave","adv">>',
    # payload passthru mode: publishers, callers and callees that announced the feature or did not
    "ppt": '<<"join","join","join","reg","reg","call","call","call","answer","answer","answer","pub","pub","sub","sub","leave","adv","cancel">>',
    # wamp.session.modify_details: identity details change or go; then filters, disclosure, kills, the meta API
    "mod": '<<"join","join","sub","sub","reg","mmod","mmod","mmod","pub","pub","call","msess","msess","kill1","leave">>',
    # realms with event history: subscriptions that exist without subscribers, watched through the meta API
    "histmeta": '<<"join","join","wsub","sub","sub","sub","unsub","msub","msub","pub","leave","hist">>',
    "killx": '<<"join","join","sub","wsub","tst","tst","kill","kill","kill","leave","msess","pub">>',
    "stallburst": '<<"join","join","sub","sub","sub","stall","bpub","bpub","bpub","resume","pub","leave">>',
    "burst": '<<"join","join","sub","sub","sub","reg","pub","bpub","bpub","bpub","leave","bmix">>',
    "burstrpc": '<<"join","join","reg","reg","sub","call","yield","bmix">>',
    "burstslow": '<<"join","join","reg","sub","pub","call","yield","bslow">>',
    "hs": '<<"hello","hello","hello","auth","auth","auth","adv","msess","msess","wsub","pub","intrude","hsdrop","leave">>',
    "churn": '<<"join","join","sub","pub","reg","call","call","cancel","yield","leave","leave","leave","adv">>',
}

ALL_CLASSES = ["sess", "pubsub", "details", "meta", "metaapi", "rpcreply", "rpcroute", "rpcintr", "snap"]

MC_PUBSUB = ["TablesOK", "C01_Delivery", "C01_NoEventsOtherwise", "C01_StableIds", "C01_ViewAgrees"]
MC_RPC_KINDS = ["join", "reg", "unreg", "call", "cancel", "yield", "inverr", "leave", "adv"]

PROPS = {
    "C01": dict(family="core",
                mc=dict(kinds=["join", "sub", "unsub", "pub", "leave"], inv=MC_PUBSUB,
                        quick=dict(steps=5, nsess=2), thorough=dict(steps=6, nsess=3)),
                gen=[dict(bag="pubsub", depth=16, quick=160, thorough=2500),
                     dict(bag="ppt", depth=16, quick=50, thorough=800, mode="ppt"),
                     dict(bag="mod", depth=16, quick=50, thorough=800)],
                classes=["pubsub"]),
    "C02": dict(family="core",
                mc=dict(kinds=MC_RPC_KINDS,
                        inv=["TablesOK", "C02_AtMostOneFinal", "C02_NoStray", "C02_Owed", "C02_NoOrphan", "C02_NoLateTimer"],
                        quick=dict(steps=5, nsess=2), thorough=dict(steps=6, nsess=3)),
                # payload passthru mode: callers and callees that announced the feature or did not
                mc2=[dict(kinds=["join", "reg", "call", "yield", "leave", "ppt"],
                          inv=["TablesOK", "C02_AtMostOneFinal", "C02_NoStray", "C02_Owed", "C02_NoOrphan"],
                          quick=dict(steps=5, nsess=2), thorough=dict(steps=6, nsess=3)),
                     # progressive call invocations: chunks, the final YIELD before the last chunk, departures
                     dict(kinds=["join", "reg", "unreg", "call", "yield", "leave", "pci"],
                          inv=["TablesOK", "C02_AtMostOneFinal", "C02_NoStray", "C02_Owed", "C02_NoOrphan"],
                          quick=dict(steps=5, nsess=2), thorough=dict(steps=6, nsess=2))],
                gen=[dict(bag="rpc", depth=18, quick=120, thorough=2500),
                     dict(bag="cancel", depth=18, quick=80, thorough=1500),
                     dict(bag="killrpc", depth=16, quick=80, thorough=1500),
                     dict(bag="pci", depth=18, quick=100, thorough=2000),
                     dict(bag="ppt", depth=18, quick=100, thorough=2000, mode="ppt"),
                     # the final reply of a call whose caller momentarily does not read (result-retry path)
                     dict(bag="retryseq", depth=16, quick=40, thorough=600, mode="stall", scripted=True)],
                classes=["rpcreply"]),
    "C03": dict(family="core",
                mc=dict(kinds=MC_RPC_KINDS,
                        inv=["TablesOK", "C03_FreshInvocationIds", "C03_RegView", "C03_Routing", "C03_NoInvocationOtherwise"],
                        quick=dict(steps=5, nsess=2), thorough=dict(steps=6, nsess=3)),
                mc2=[dict(kinds=["join", "reg", "unreg", "call", "yield", "leave", "pci"],
                          inv=["TablesOK", "C03_FreshInvocationIds", "C03_RegView", "C03_Routing", "C03_Chunks", "C03_NoInvocationOtherwise"],
                          quick=dict(steps=5, nsess=2), thorough=dict(steps=6, nsess=2))],
                gen=[dict(bag="rpc", depth=18, quick=120, thorough=3000),
                     dict(bag="shared", depth=20, quick=100, thorough=2000),
                     dict(bag="pci", depth=18, quick=120, thorough=2000)],
                classes=["rpcroute", "rpcreply"]),
    "C05": dict(family="core",
                mc=dict(kinds=["join", "sub", "pub", "reg", "call", "cancel", "yield", "leave", "adv"],
                        inv=["TablesOK", "C05_NoTrace", "C05_IdleEmpty"],
                        quick=dict(steps=5, nsess=2), thorough=dict(steps=6, nsess=3)),
                gen=[dict(bag="churn", depth=18, quick=120, thorough=2500),
                     dict(bag="mixed", depth=20, quick=60, thorough=1500),
                     dict(bag="kill", depth=18, quick=60, thorough=1500),
                     dict(bag="tst", depth=18, quick=50, thorough=1000),
                     dict(bag="pci", depth=16, quick=60, thorough=1000),
                     dict(bag="ppt", depth=16, quick=60, thorough=1000, mode="ppt"),
                     dict(bag="hist", depth=16, quick=50, thorough=800, mode="hist")],
                classes=["sess", "pubsub", "meta", "rpcreply", "rpcroute", "rpcintr", "snap"]),
    "C18": dict(family="core",
                mc=dict(kinds=["join", "wsub", "sub", "reg", "kill", "tst", "leave"],
                        inv=["TablesOK", "C18_ObserverView", "C18_Kill", "C18_Testaments", "C05_NoTrace"],
                        quick=dict(steps=5, nsess=2), thorough=dict(steps=6, nsess=3)),
                gen=[dict(bag="meta", depth=18, quick=140, thorough=2500),
                     dict(bag="kill", depth=18, quick=80, thorough=2000),
                     dict(bag="tst", depth=18, quick=80, thorough=1500),
                     dict(bag="mod", depth=16, quick=80, thorough=1500),
                     dict(bag="histmeta", depth=16, quick=70, thorough=1200, mode="hist")],
                classes=["sess", "meta", "metaapi", "rpcreply", "pubsub"], poison=True),
    "C20": dict(family="core",
                mc=dict(kinds=["join", "sub", "unsub", "pub", "leave"], inv=MC_PUBSUB + ["C20_Retention"],
                        quick=dict(steps=5, nsess=2), thorough=dict(steps=6, nsess=3), mode="hist"),
                gen=[dict(bag="hist", depth=18, quick=320, thorough=3000, mode="hist")],
                classes=["metaapi", "rpcreply", "pubsub"]),
    "C07": dict(family="core",
                conc=dict(inv=["NoPanic", "Bounded"], props=["BrokerNeverWedged", "CloseReturns"]),
                gen=[dict(bag="stall", depth=24, quick=200, thorough=2500, mode="stall"),
                     dict(bag="stallburst", depth=16, quick=100, thorough=1500, mode="stall"),
                     dict(bag="stallkill", depth=18, quick=100, thorough=2000, mode="stall"),
                     dict(bag="stallseq", depth=16, quick=120, thorough=2000, mode="stall", scripted=True),
                     dict(bag="killstall", depth=15, quick=40, thorough=800, mode="stall", scripted=True),
                     dict(bag="burstrpc", depth=10, quick=120, thorough=1500)],
                classes=["sess", "pubsub", "meta", "rpcreply", "rpcroute", "rpcintr", "snap"]),
    "C08": dict(family="core",
                conc=dict(inv=["Ordered"], devs={"DevAsyncPublish": "Ordered"}),
                gen=[dict(bag="burst", depth=14, quick=250, thorough=3000),
                     dict(bag="burstrpc", depth=12, quick=160, thorough=2000),
                     dict(bag="burstslow", depth=8, quick=40, thorough=400),
                     # bursts towards reading subscribers whose queues are smaller than the burst: what arrives is still in order
                     dict(bag="burst", depth=12, quick=80, thorough=1200, mode="stall")],
                classes=["pubsub", "rpcreply", "rpcroute"]),
    "C06": dict(family="core", crashpoints=True,
                conc=dict(inv=["NoPanic", "QuietAfterClose", "ToldOrClosed"], props=["CloseReturns"],
                          devs={"DevCloseEarly": "NoPanic", "DevWelcomeAfterStart": "NoPanic", "DevTimerAfterClose": "NoPanic"}),
                mc=dict(kinds=["join", "sub", "pub", "reg", "call", "yield", "leave", "kill", "adv"], inv=["TablesOK", "C05_NoTrace", "C02_NoLateTimer"],
                        quick=dict(steps=4, nsess=2), thorough=dict(steps=5, nsess=3)),
                gen=[dict(bag="mixed", depth=16, quick=150, thorough=2400),
                     dict(bag="cancel", depth=16, quick=120, thorough=1500),
                     dict(bag="kill", depth=14, quick=80, thorough=1200)],
                classes=["sess", "snap"]),
    "C10": dict(family="core",
                mc=dict(kinds=["join", "sub", "pub", "reg", "call", "yield", "leave"], inv=["TablesOK"], props=["C10_Refusal"],
                        quick=dict(steps=4, nsess=3), thorough=dict(steps=6, nsess=3), mode="authz"),
                gen=[dict(bag="mixed", depth=20, quick=160, thorough=3000, mode="authz"),
                     dict(bag="authzrpc", depth=16, quick=120, thorough=2000, mode="authz"),
                     dict(bag="meta", depth=16, quick=60, thorough=1000, mode="authz"),
                     dict(bag="mod", depth=16, quick=60, thorough=1000, mode="authz")],
                classes=["sess", "pubsub", "meta", "metaapi", "rpcreply", "rpcroute", "rpcintr"]),
    "C11": dict(family="core", realms=True,
                mc=dict(kinds=["join", "sub", "pub", "reg", "call", "yield", "leave", "kill"], inv=["TablesOK", "C05_NoTrace"],
                        quick=dict(steps=4, nsess=2), thorough=dict(steps=5, nsess=3)),
                gen=[dict(bag="mixed", depth=14, quick=30, thorough=800),
                     dict(bag="kill", depth=14, quick=20, thorough=400),
                     dict(bag="killx", depth=12, quick=35, thorough=800),
                     dict(bag="meta", depth=14, quick=20, thorough=400),
                     dict(bag="retryseq", depth=14, quick=30, thorough=500, mode="stall", scripted=True)],
                classes=["sess", "pubsub", "meta", "metaapi", "rpcreply", "rpcroute", "rpcintr", "snap"]),
    "C12": dict(family="core",
                mc=dict(kinds=["join", "sub", "pub", "reg", "call", "leave", "disc"],
                        inv=["TablesOK", "C12_EventDisclosure", "C12_CallerDisclosure", "C12_RefusedDisclosure"],
                        quick=dict(steps=4, nsess=2), thorough=dict(steps=5, nsess=2)),
                gen=[dict(bag="disc", depth=18, quick=160, thorough=2000),
                     dict(bag="disc", depth=16, quick=120, thorough=2000, mode="disc"),
                     dict(bag="hist", depth=16, quick=60, thorough=800, mode="hist"),
                     dict(bag="mod", depth=16, quick=60, thorough=1000, mode="disc")],
                classes=["sess", "pubsub", "details", "meta", "metaapi", "rpcroute", "rpcreply"], poison=True),
    "C04": dict(family="hostile", classes=["sess", "pubsub", "rpcreply", "rpcroute", "rpcintr", "metaapi", "meta"]),
    "C19": dict(family="funcs"),
    "C15": dict(family="wire"),
    "C14": dict(family="codec"),
    "C16": dict(family="client",
                conc=dict(inv=["OwnReply", "AtMostOnce", "NoLeftover"], props=["CloseReturns", "ApisReturn", "RunMovesOn"],
                          quick=dict(napi=2, nreplies=2), thorough=dict(napi=3, nreplies=2),
                          devs={"DevStrandedReply": "RunMovesOn"}),
                gen=[dict(bag="api", depth=18, quick=150, thorough=2500),
                     dict(bag="time", depth=16, quick=120, thorough=2000),
                     dict(bag="inv", depth=18, quick=120, thorough=2000),
                     dict(bag="slowprog", depth=14, quick=100, thorough=1500),
                     dict(bag="callp", depth=14, quick=100, thorough=1500),
                     dict(bag="cancelstream", depth=14, quick=100, thorough=1500)]),
    "C17": dict(family="client", hostile_enum=True,
                conc=dict(inv=["OwnReply", "AtMostOnce", "NoLeftover"], props=["CloseReturns", "ApisReturn", "RunMovesOn"],
                          quick=dict(napi=2, nreplies=2), thorough=dict(napi=3, nreplies=2),
                          devs={"DevStrandedReply": "CloseReturns"}),
                gen=[dict(bag="hostile", depth=18, quick=120, thorough=2000),
                     dict(bag="shutdown", depth=16, quick=100, thorough=1500),
                     dict(bag="dupinv", depth=18, quick=80, thorough=1500),
                     dict(bag="time", depth=16, quick=60, thorough=1000),
                     dict(bag="cancelstream", depth=14, quick=80, thorough=1200),
                     dict(bag="deafrouter", depth=14, quick=80, thorough=1200)]),
    "C09": dict(family="core",
                mcx=dict(module="MCHs", spec="MCSpec",
                         inv=["C09_WelcomeOnlyIfJustified", "C09_AttachedIffWelcomed", "C09_RejectedInert", "C09_AbortedOrClosed", "C09_Identity"],
                         consts=dict(quick={"Small": "TRUE"}, thorough={"Small": "FALSE"}),
                         devs={"DevCryptosignReplay": "C09_WelcomeOnlyIfJustified"}),
                gen=[dict(bag="hs", depth=18, quick=300, thorough=4000, mode="hs")],
                classes=["sess", "meta", "metaapi", "pubsub", "rpcreply"]),
    "C13": dict(family="core",
                mc=dict(kinds=MC_RPC_KINDS,
                        inv=["C13_AtMostOneInterrupt", "C13_Modes", "C13_TimeoutExact", "C02_NoLateTimer"],
                        quick=dict(steps=5, nsess=2), thorough=dict(steps=6, nsess=3)),
                gen=[dict(bag="cancel", depth=18, quick=180, thorough=3000),
                     dict(bag="shared", depth=20, quick=100, thorough=2000)],
                classes=["rpcreply", "rpcintr", "rpcroute"]),
}


def _is_killall(e):
    return e.get("ev") == "step" and e["in"]["op"] == "metacall" and "".join(e["in"]["uri"]) == "wamp.session.kill_all"


# which recorded events can meet a known finding (by deviation name)
KNOWN_TRIGGER = {"DevKillAllSilent": _is_killall}


def matches_known(k, v):
    return v.get("known") is not None and v["known"].get("deviation") == k.get("deviation")


def violation_sig(fail):
    ev = fail.get("event") or {}
    ex = fail.get("explain") or {}

    def kinds(side):
        out = []
        for s, ms in sorted((ex.get(side) or {}).items()):
            for m in ms:
                out.append(m.get("k") + (":" + m["e"] if m.get("e") else ""))
        return sorted(out)
    return {"op": (ev.get("in") or {}).get("op"), "how": (ev.get("in") or {}).get("how", ""),
            "expected": kinds("expected"), "logged": kinds("logged")}


def mc_cfg(mc, tier, devs=()):
    b = mc[tier]
    cfg = "SPECIFICATION MCSpec\nCONSTANTS\n  Deviations = %s\n  MCKinds = %s\n  MaxSteps = %d\n  NSess = %d\n  MCMode = \"%s\"\n" % (
        tla_set(devs), tla_set(mc["kinds"]), b["steps"], b["nsess"], mc.get("mode", ""))
    cfg += "INVARIANTS " + " ".join(mc["inv"]) + "\n"
    if mc.get("props"):
        cfg += "PROPERTIES " + " ".join(mc["props"]) + "\n"
    cfg += "CHECK_DEADLOCK FALSE\n"
    return cfg


CONC_SAFETY = {"quick": dict(sessions='{"s1", "s2"}', publishers='{"s1"}', qcap=1, npub=1),
               "thorough": dict(sessions='{"s1", "s2"}', publishers='{"s1"}', qcap=2, npub=2)}
CONC_LIVE = {"quick": dict(sessions='{"s1"}', publishers='{"s1"}', qcap=1, npub=1),
             "thorough": dict(sessions='{"s1"}', publishers='{"s1"}', qcap=2, npub=2)}


def conc_cfg(b, inv, props, devs=()):
    cfg = "SPECIFICATION Spec\nCONSTANTS\n  Sessions = %s\n  Publishers = %s\n  QCap = %d\n  NPub = %d\n  Deviations = %s\n" % (
        b["sessions"], b["publishers"], b["qcap"], b["npub"], tla_set(devs))
    if inv:
        cfg += "INVARIANTS " + " ".join(inv) + "\n"
    if props:
        cfg += "PROPERTIES " + " ".join(props) + "\n"
    return cfg + "CHECK_DEADLOCK FALSE\n"


def run_conc(work, conc, tier):
    """leg 1 on the goroutine/channel skeleton spec/Conc.tla (PlusCal, committed translated)"""
    tot = {"distinct": 0, "generated": 0, "wall_s": 0.0}
    if conc.get("inv"):
        st = model_check(work, "Conc", conc_cfg(CONC_SAFETY[tier], conc["inv"], []), timeout=3000, tag="conc-safety")
        for k in tot:
            tot[k] += st[k]
    if conc.get("props"):
        st = model_check(work, "Conc", conc_cfg(CONC_LIVE[tier], ["NoPanic"], conc["props"]), timeout=3000, tag="conc-live")
        for k in tot:
            tot[k] += st[k]
    # the named deviations must each be caught by TLC (the invariants are not vacuous)
    for dev, inv in conc.get("devs", {}).items():
        cfg = conc_cfg(CONC_SAFETY["thorough"], [inv], [], [dev])
        rc, out, wall = tlc(work, "Conc", cfg, [], 900, workers=CORES, tag="conc-dev-" + dev)
        if "Invariant %s is violated" % inv not in out:
            raise Infra("Conc.tla: deviation %s is not caught by invariant %s (vacuous?)" % (dev, inv))
    return tot


def mcx_cfg(mcx, tier, devs=()):
    cfg = "SPECIFICATION %s\nCONSTANTS\n  Deviations = %s\n" % (mcx["spec"], tla_set(devs))
    for k, v in mcx["consts"][tier].items():
        cfg += "  %s = %s\n" % (k, v)
    return cfg + "INVARIANTS " + " ".join(mcx["inv"]) + "\nCHECK_DEADLOCK FALSE\n"


def run_mcx(work, mcx, tier):
    """leg 1 on a property-specific model checking module; each named deviation must be caught"""
    st = model_check(work, mcx["module"], mcx_cfg(mcx, tier), timeout=3000, tag="mcx")
    for dev, inv in mcx.get("devs", {}).items():
        rc, out, wall = tlc(work, mcx["module"], mcx_cfg(mcx, "quick", [dev]), [], 1500, workers=CORES, tag="mcx-dev-" + dev)
        if "Invariant %s is violated" % inv not in out:
            raise Infra("%s: deviation %s is not caught by invariant %s (vacuous?)" % (mcx["module"], dev, inv))
    return st


def op_histogram(evs):
    h = collections.Counter()
    for e in evs:
        if e["ev"] == "step":
            h[e["in"]["op"]] += 1
    return dict(h)


def distinct_shapes(evs):
    """distinct non-trivial (input kind, multiset of output kinds) pairs: a step is
    non-trivial when it produced at least one message"""
    shapes = set()
    for e in evs:
        if e["ev"] != "step" or not e["out"]:
            continue
        outs = tuple(sorted((so["s"] == e["in"]["s"], m["k"], m["e"]) for so in e["out"] for m in so["m"]))
        shapes.add((e["in"]["op"], e["in"].get("how", ""), outs))
    return len(shapes)


def corrupt_trace(evs):
    """binding self-test: remove one received message from the first step that
    has one of the compared classes; the trace must then be rejected (sessions
    with a tiny queue may legitimately lose messages: not those)"""
    out = json.loads(json.dumps(evs))
    small = set()
    for n, e in enumerate(out):
        if e["ev"] != "step":
            continue
        if e["in"]["op"] == "join" and 0 < e["in"]["join"].get("q", 0) < 8:
            small.add(e["in"]["s"])
        if e["in"]["op"] == "hello" and 0 < e["in"]["hello"].get("q", 0) < 8:
            small.add(e["in"]["s"])
        if e["out"] and e["in"]["op"] not in ("join", "burst", "closerouter", "rmrealm"):
            for k, so in enumerate(e["out"]):
                if so["s"] in small or not so["m"]:
                    continue
                so["m"] = so["m"][1:]
                if not so["m"]:
                    del e["out"][k]
                return out, n + 1
    return None, None


def chars(u):
    return list(u)


def known_finding_scenario(prop):
    """the listed known finding (wamp.session.kill_all is silent) is met on purpose in every run of a check that lists it, so
    that the check reports it as KNOWN-FINDING each time - and notices if it ever goes away or changes its shape"""
    j = lambda a: {"authid": a, "color": "", "feats": [], "local": True, "q": 0, "tr": ""}
    cfg = {"strict": False, "disclose": False, "metakill": True, "hcfg": [], "users": [{"id": "alice", "role": "user"}], "authz": [], "lauthz": False,
           "late": False, "template": False, "closed": False, "auth": {"anon": True, "methods": ["ticket"], "lauth": False, "crtmo": 60000}}
    steps = [{"op": "join", "s": "s1", "join": j("u1")}, {"op": "join", "s": "s2", "join": j("u2")},
             {"op": "subscribe", "s": "s1", "req": 3, "uri": chars("wamp."), "o": {"match": "prefix"}},
             {"op": "subscribe", "s": "s1", "req": 4, "uri": chars("a.b"), "o": {"match": ""}},
             {"op": "metacall", "s": "s2", "req": 5, "uri": chars("wamp.session.add_testament"), "uri2": chars("a.b"), "tag": "T5", "how": ""},
             {"op": "metacall", "s": "s1", "req": 6, "uri": chars("wamp.session.kill_all")}]
    return {"id": "%s.known.0001" % prop, "cfg": cfg, "steps": steps, "epilogue": True}


def combine_realms(scns, seed, prop):
    """C11: two or three independently generated single-realm scenarios run
    simultaneously in one router, with identical URIs and colliding ids; the
    second realm is added at run time, the third is created from the realm
    template, and one realm is removed in the middle"""
    rnd = random.Random(seed)
    out = []
    pool = list(scns)
    rnd.shuffle(pool)
    n = 0
    while len(pool) >= 2:
        k = 3 if len(pool) >= 3 and rnd.random() < 0.5 else 2
        parts, pool = pool[:k], pool[k:]
        n += 1
        realms, queues = [], []
        for r, sc in enumerate(parts):
            cfg = dict(sc["cfg"])
            cfg["late"] = (r == 1)
            cfg["template"] = (r == 2)
            realms.append(cfg)
            q = []
            for st in sc["steps"]:
                st = json.loads(json.dumps(st))
                st["r"] = r
                if st.get("s"):
                    st["s"] = "r%d%s" % (r, st["s"])
                q.append(st)
            if r == 1:
                q.insert(0, {"op": "addrealm", "r": 1})
            queues.append(q)
        steps = []
        while any(queues):
            r = rnd.choice([i for i, q in enumerate(queues) if q])
            steps.append(queues[r].pop(0))
        victim = rnd.randrange(k)
        held = [r for r, sc in enumerate(parts) if "retryseq" in sc["id"] or ".stall" in sc["id"]]
        if held:
            victim = rnd.choice(held)
        rm = {"op": "rmrealm", "r": victim}
        pos = rnd.randrange(len(steps) // 2, len(steps) + 1)
        # preferably while a callee's handler in the victim realm is held back by a caller that
        # does not read (the removal then has to wait for it) ...
        stalled = False
        cands = []
        for si, st in enumerate(steps):
            if st.get("r") == victim and st["op"] == "stall":
                stalled = True
            if st.get("r") == victim and st["op"] == "resume":
                stalled = False      # (the caller reads again: a later yield is not held back)
            if st.get("r") == victim and st["op"] == "yield" and stalled:
                cands.append(si + 1)
        if cands and (held or rnd.random() < 0.8):
            pos = max(cands) if rnd.random() < 0.7 else rnd.choice(cands)
        # ... and while somebody joins another realm, who must be served without delay
        if (held and cands) or rnd.random() < 0.6:
            other = rnd.choice([r for r in range(k) if r != victim])
            rm["with"] = {"op": "join", "r": other, "s": "r%dzj" % other,
                          "join": {"authid": "u1", "color": "", "feats": [], "local": True, "q": 0}}
        steps.insert(pos, rm)
        out.append({"id": "%s.realms%d.%04d" % (prop, seed, n), "realms": realms, "steps": steps, "epilogue": True})
    return out


def crashpoint_variants(scns, seed, prop):
    """C06: every generated scenario is cut at a seeded point; there the router is
    closed (or the realm removed), in half of the cases while the next input of the
    scenario is submitted concurrently; afterwards attach attempts, a two hour
    advance (so that every timer that was pending fires) and the goroutine count."""
    rnd = random.Random(seed)
    out = []
    for n, sc in enumerate(scns):
        steps = sc["steps"]
        joins = [i for i, s in enumerate(steps) if s["op"] == "join"]
        lo = joins[1] + 1 if len(joins) > 1 else 1
        if lo >= len(steps):
            continue
        cut = rnd.randrange(lo, len(steps) + 1)
        op = "closerouter" if rnd.random() < 0.7 else "rmrealm"
        st = {"op": op}
        nxt = steps[cut] if cut < len(steps) else None
        if nxt is not None and nxt["op"] not in ("advance", "snap") and rnd.random() < 0.6:
            st["with"] = nxt
        elif rnd.random() < 0.5:
            st["with"] = {"op": "join", "s": "z0", "join": {"authid": "u1", "color": "", "feats": [], "local": True, "q": 0}}
            st["gate"] = rnd.random() < 0.5
        pre = []
        if rnd.random() < 0.35:
            # two unobserved sessions have a progressive call invocation with a router-side timeout
            # in flight (several chunks: several timers), pending when the router is closed
            allf = ["callee:progressive_call_invocations", "callee:call_canceling", "caller:progressive_call_invocations",
                    "callee:progressive_call_results"]
            tj = lambda: {"authid": "u9", "color": "tainted", "feats": allf, "local": True, "q": 0}
            pre = [{"op": "join", "s": "zq", "join": tj()}, {"op": "join", "s": "zp", "join": tj()},
                   {"op": "pci", "s": "zq", "args": ["zp"], "id": rnd.choice([2, 3, 6]), "ms": rnd.choice([500, 60000, 3600000]),
                    "how": rnd.choice(["open", "done"])}]
        post = pre + [st,
                {"op": "join", "s": "z1", "join": {"authid": "u1", "color": "", "feats": [], "local": True, "q": 0}},
                {"op": "advance", "ms": 7200000},
                {"op": "join", "s": "z2", "join": {"authid": "alice", "color": "", "feats": [], "local": False, "q": 0}},
                {"op": "snap"}]
        out.append({"id": "%s.cp%d.%04d" % (prop, seed, n + 1), "cfg": sc["cfg"], "steps": steps[:cut] + post, "epilogue": False})
    return out


def run_core(prop, spec, tier, seed, work, replay):
    known = [k for k in known_findings(prop) if k.get("status") == "known" and k.get("deviation")]
    devs = []      # the specification the properties demand: no deviation enabled
    classes = spec["classes"]
    consts = {"Deviations": tla_set(devs), "Classes": tla_set(classes)}
    binary = build_harness(work)
    violations = []
    cov = {}
    if replay:
        rp = json.load(open(replay))
        scns = [rp["scenario"]]
        mcst = None
    else:
        # leg 1
        mcst = {"distinct": 0, "generated": 0, "wall_s": 0.0}
        if spec.get("mc"):
            mcst = model_check(work, "MC", mc_cfg(spec["mc"], tier), timeout=3000, tag="mc")
        for n2, mc2 in enumerate(spec.get("mc2", [])):
            st2 = model_check(work, "MC", mc_cfg(mc2, tier), timeout=3000, tag="mc2-%d" % n2)
            for k in mcst:
                mcst[k] = mcst[k] + st2[k]
        if spec.get("mcx"):
            xst = run_mcx(work, spec["mcx"], tier)
            for k in mcst:
                mcst[k] = mcst[k] + xst[k]
        if spec.get("conc"):
            cst = run_conc(work, spec["conc"], tier)
            for k in mcst:
                mcst[k] = mcst[k] + cst[k]
        log("leg 1: %d distinct states, %d generated, %.0fs" % (mcst["distinct"], mcst["generated"], mcst["wall_s"]))
        # leg 2: generate
        scns = []
        for gi, g in enumerate(spec["gen"]):
            part = gen_scenarios(work, "Gen", {"Deviations": tla_set(devs), "Depth": g["depth"], "Mode": '"%s"' % g.get("mode", ""),
                                               "Scripted": "TRUE" if g.get("scripted") else "FALSE"},
                                 g[tier], g["depth"], seed * 7919 + gi, "gen%d" % gi, "%s.%s%d." % (prop, g["bag"], seed),
                                 defs={"KindBag": BAG[g["bag"]]})
            for s in part:
                s["epilogue"] = True
                s["poison"] = bool(spec.get("poison"))
            scns += part
        if known and not spec.get("realms"):
            scns.append(known_finding_scenario(prop))
        if spec.get("realms"):
            scns = combine_realms(scns, seed, prop)
            if known:
                scns.append(known_finding_scenario(prop))
        if spec.get("crashpoints"):
            scns = crashpoint_variants(scns, seed, prop)
    byid = {s["id"]: s for s in scns}
    for s in list(scns):
        for r in range(len(s.get("realms") or [])):
            byid["%s#%d" % (s["id"], r)] = s
    tf, crashes = run_exec(work, binary, scns, "ex")
    for c in crashes:
        violations.append({"kind": "crash", "scn": c["scn"], "scenario": byid[c["scn"]], "stderr": c["stderr"],
                           "sig": {"op": "crash"},
                           "summary": "the worker running the router died in scenario %s: %s" % (
                               c["scn"], next((l for l in c["stderr"].splitlines() if l.startswith("panic:") or l.startswith("fatal error:")), "?"))})
    evs = read_trace(tf)
    groups0, order0 = split_by_scn(evs)
    fails = []
    if known:
        # Scenarios that can meet a listed known finding are validated apart, so that the finding
        # (reported as KNOWN-FINDING, never a violation) cannot use up the failure budget of the rest
        trig = [s for s in order0 if any(KNOWN_TRIGGER.get(k["deviation"], lambda e: False)(e) for k in known for e in groups0[s])]
        if trig:
            ft = work.path("trig.ndjson")
            with open(ft, "w") as fh:
                for s in trig:
                    for e in groups0[s]:
                        fh.write(json.dumps(e) + "\n")
            okt, nevt, failst = validate_all(work, "Trace", "TraceSpec", consts, ft, "valk", max_viol=15)
            fails += failst
            rest = work.path("rest.ndjson")
            tset = set(trig)
            with open(rest, "w") as fh:
                for s in order0:
                    if s not in tset:
                        for e in groups0[s]:
                            fh.write(json.dumps(e) + "\n")
            tf = rest
    ok, nev, fails2 = validate_all(work, "Trace", "TraceSpec", consts, tf, "val")
    fails += fails2
    ok = len(order0) - len(fails)
    for f in fails:
        v = {"kind": "trace-rejected", "scn": f["scn"], "scenario": byid[f["scn"]], "step": f["step"],
             "explain": f["explain"], "story": f["story"].split("\n"), "sig": violation_sig(f),
             "summary": "scenario %s: the recorded execution is not a behaviour of the specification at step %d (%s)" % (
                 f["scn"], f["step"], json.dumps(violation_sig(f)))}
        # a rejection that one listed deviation of the code explains is a known finding
        for k in known:
            fk = work.path("known.ndjson")
            with open(fk, "w") as fh:
                for e in groups0[f["scn"]]:
                    fh.write(json.dumps(e) + "\n")
            acc, _, _, _ = validate(work, "Trace", "TraceSpec", dict(consts, Deviations=tla_set([k["deviation"]])), fk, "known")
            if acc:
                v["known"] = k
                break
        violations.append(v)
    if replay:
        return {"violations": violations, "coverage": {}}
    # binding self-test on the first accepted scenarios
    groups, order = split_by_scn(evs)
    bad = {v["scn"] for v in violations}
    good = [s for s in order if s not in bad][:3]
    selftest = "skipped"
    if good:
        sub = [e for s in good for e in groups[s]]
        cor, line = corrupt_trace(sub)
        if cor:
            f = work.path("selftest.ndjson")
            with open(f, "w") as fh:
                for e in cor:
                    fh.write(json.dumps(e) + "\n")
            accepted, depth, _, _ = validate(work, "Trace", "TraceSpec", dict(consts, Classes=tla_set(ALL_CLASSES)), f, "selftest")
            if accepted:
                raise Infra("binding self-test failed: a trace with a dropped message was accepted")
            selftest = "trace with one received message removed at line %d rejected at line %s" % (line, depth)
    sample = []
    for s in good[:2]:
        sample.append({"scenario": s, "story": scenario_story(groups[s]).split("\n")})
    cov = {"states": mcst["distinct"], "transitions": mcst["generated"],
           "traces_validated_against_impl": ok,
           "samples": sample,
           "evaluations": sum(1 for e in evs if e["ev"] == "step"),
           "distinct_nontrivial": distinct_shapes(evs),
           "rule": "TLC simulation of Gen.tla (seeded) generates input sequences; each is executed on the real router "
                   "in a synctest bubble and its recorded trace validated by TLC against Trace.tla; evaluations = validated "
                   "steps; distinct non-trivial = distinct (input kind, multiset of received message kinds) with at least one message",
           "scenarios_generated": len(scns), "trace_events": len(evs), "ops": op_histogram(evs),
           "leg1": {"config": (spec.get("mc") or {}).get(tier), "invariants": (spec.get("mc") or spec.get("mcx") or {}).get("inv"),
                    "module": (spec.get("mcx") or {}).get("module", "MC"),
                    "conc": spec.get("conc"), "wall_s": mcst["wall_s"]},
           "classes_compared": classes, "binding_selftest": selftest,
           "checker_cmd": "tlc MC.tla (leg 1); tlc -simulate Gen.tla (leg 2); tlc Trace.tla (leg 3)",
           "exhaustive": False}
    assumptions = ["small-scope: <= 4 sessions, scenario length <= 20, URI universe of Gen.tla",
                   "harness abstraction alpha (harness/exec.go) is faithful",
                   "testing/synctest quiescence and virtual clock",
                   "TLC"]
    return {"violations": violations, "coverage": cov, "assumptions": assumptions}


# ---------------------------------------------------------------------------
# C04: hostile inputs (spec/Hostile.tla enumerates the mutants)

FEATS_ALL = ["subscriber:publisher_identification", "callee:call_canceling", "callee:call_timeout",
             "callee:caller_identification", "callee:progressive_call_results", "callee:payload_passthru_mode",
             "caller:payload_passthru_mode", "publisher:payload_passthru_mode", "callee:progressive_call_invocations",
             "caller:progressive_call_invocations"]


def enumerate_mutants(work, side):
    cfg = 'SPECIFICATION Spec\nCONSTANT Side = "%s"\nINVARIANT Emitted\nCHECK_DEADLOCK FALSE\n' % side
    rc, out, wall = tlc(work, "Hostile", cfg, [], 300, workers=1, tag="hostile-" + side)
    muts = []
    for m in re.finditer(r'<<"SCN", (".*")>>', out):
        muts.append(json.loads(unq(m.group(1))))
    st = parse_mc_stats(out)
    if not muts or st is None:
        raise Infra("mutant enumeration failed:\n" + out[-2000:])
    # unique
    seen, res = set(), []
    for m in muts:
        k = json.dumps(m, sort_keys=True)
        if k not in seen:
            seen.add(k)
            res.append(m)
    return res, st


def U(s):
    return list(s)


def hostile_scenario(n, mu, prop, variant=0, variant_twice=False, bare=False):
    j = lambda authid, color, local=True: {"authid": authid, "color": color,
                                           "feats": [] if (bare and color == "tainted") else FEATS_ALL, "local": local, "q": 0}
    sender = "x2" if mu["t"] in ("CANCEL", "RESULT") else "x1"
    steps = [
        {"op": "join", "s": "b1", "join": j("u1", "")},
        {"op": "join", "s": "b2", "join": j("alice", "", variant % 2 == 0)},
        {"op": "join", "s": "x1", "join": j("u2", "tainted")},
        {"op": "join", "s": "x2", "join": j("bob", "tainted", variant % 3 != 0)},
        {"op": "subscribe", "s": "b1", "req": 1, "uri": U("p.t")},
        {"op": "register", "s": "b1", "req": 2, "uri": U("p.proc")},
        {"op": "subscribe", "s": "x1", "req": 1, "uri": U("h.t")},
        {"op": "register", "s": "x1", "req": 2, "uri": U("h.proc")},
        {"op": "call", "s": "x2", "req": 1, "uri": U("h.proc"), "tag": "h1", "o": {"rprog": True}},
        {"op": "hostile", "s": sender, "hm": mu},
    ]
    if variant_twice:
        # repeated / contradictory requests: the same mutant again from the partner,
        # then ordinary traffic towards whatever the two requests created
        steps += [
            {"op": "hostile", "s": "x2", "hm": mu},
            {"op": "call", "s": "x2", "req": 21, "uri": U("h.proc2"), "tag": "h21"},
            {"op": "publish", "s": "x2", "req": 22, "uri": U("h.t2"), "tag": "h22", "o": {"xme": "f"}},
            {"op": "call", "s": "x1", "req": 23, "uri": U("h.proc2"), "tag": "h23"},
        ]
    steps += [
        # probes: everybody else is served exactly per specification
        {"op": "publish", "s": "b2", "req": 11, "uri": U("p.t"), "tag": "p11", "o": {"ack": True}},
        {"op": "call", "s": "b2", "req": 12, "uri": U("p.proc"), "tag": "p12"},
        {"op": "yield", "s": "b1", "id": 1, "tag": "p13"},
        {"op": "metacall", "s": "b2", "req": 14, "uri": U("wamp.session.count")},
        {"op": "subscribe", "s": "b2", "req": 15, "uri": U("p.t")},
        {"op": "publish", "s": "b1", "req": 16, "uri": U("p.t"), "tag": "p16", "o": {"ack": True}},
    ]
    return {"id": "%s.h%04d" % (prop, n), "cfg": {"strict": False, "disclose": True, "metakill": True, "hcfg": [],
                                                  "users": [{"id": "alice", "role": "user"}, {"id": "bob", "role": "admin"}],
                                                  "authz": [], "lauthz": False},
            "steps": steps, "epilogue": True}


def run_hostile(prop, spec, tier, seed, work, replay):
    binary = build_harness(work)
    consts = {"Deviations": tla_set([]), "Classes": tla_set(spec["classes"])}
    violations = []
    if replay:
        scns = [json.load(open(replay))["scenario"]]
        st = None
    else:
        muts, st = enumerate_mutants(work, "router")
        rnd = random.Random(seed)
        if tier == "quick":
            # every (template, position) once with a seeded kind, every extra
            by = {}
            for m in muts:
                by.setdefault((m["t"], m["pos"], m["phase"], m["drop"]), []).append(m)
            pick = [rnd.choice(v) for k, v in sorted(by.items())]
            # plus the string-typed option positions with every kind (type confusion)
            pick += [m for m in muts if m["pos"].startswith("ppt_") or m["pos"] in ("invoke", "match", "mode")]
            seen, muts2 = set(), []
            for m in pick:
                k = json.dumps(m, sort_keys=True)
                if k not in seen:
                    seen.add(k)
                    muts2.append(m)
            muts = muts2
        scns = [hostile_scenario(i + 1, m, prop, i) for i, m in enumerate(muts)]
        twice = [m for m in muts if m["t"] in ("REGISTER", "SUBSCRIBE") and m["phase"] == "joined"
                 and (tier == "thorough" or m["pos"] in ("invoke", "match"))]
        scns += [hostile_scenario(len(scns) + i + 1, m, prop, i, True) for i, m in enumerate(twice)]
        # offenders that announced no features at all using feature-bound options
        bare = [m for m in muts if m["phase"] == "joined" and (m["pos"].startswith("ppt_") or m["pos"] in ("progress", "receive_progress", "timeout", "disclose_me", "exclude_me"))
                and (tier == "thorough" or m["kind"] in ("true", "str"))]
        scns += [hostile_scenario(len(scns) + i + 1, m, prop, i, False, True) for i, m in enumerate(bare)]
    # byte level hostility (frames of every type and size, truncated frames, lists that only
    # resemble messages) against the rawsocket peer: Wire.tla
    wire_viol, wire_cov = [], (0, 0, [])
    if not replay:
        import fam_wire
        wscn = gen_scenarios(work, "GenWire", {"Depth": 9, "Big": "FALSE"}, 150 if tier == "quick" else 3000, 9, seed * 7919 + 77,
                             "genwire", "%s.wire%d." % (prop, seed))
        wire_viol, wire_cov = fam_wire.exec_wire(work, binary, wscn)
        violations += wire_viol
        # ... and the request/reply loops against dealer and meta API of the concurrency family: timing must not wedge the router
        bs = gen_scenarios(work, "Gen", {"Deviations": tla_set([]), "Depth": 10, "Mode": '""', "Scripted": "FALSE"}, 60 if tier == "quick" else 1500, 10,
                           seed * 7919 + 78, "genburst", "%s.burst%d." % (prop, seed), defs={"KindBag": BAG["burstrpc"]})
        # ... and ordinary traffic of sessions that come and go ("whenever they disconnect"): sessions that
        # announce only some roles, leave with subscriptions, registrations and calls in place, and are published / called to afterwards
        cs = gen_scenarios(work, "Gen", {"Deviations": tla_set([]), "Depth": 16, "Mode": '""', "Scripted": "FALSE"}, 80 if tier == "quick" else 1500, 16,
                           seed * 7919 + 79, "genchurn", "%s.churn%d." % (prop, seed), defs={"KindBag": BAG["churn"]})
        for s in bs + cs:
            s["epilogue"] = True
        scns += bs + cs
    byid = {s["id"]: s for s in scns}
    tf, crashes = run_exec(work, binary, scns, "ex", timeout=1800)
    for c in crashes:
        mu = next((s for s in byid[c["scn"]]["steps"] if s["op"] == "hostile"), {}).get("hm")
        line = next((l for l in c["stderr"].splitlines() if l.startswith("panic:") or l.startswith("fatal error:")), "?")
        site = next((l.strip() for l in c["stderr"].splitlines() if "/repo/" in l), "")
        violations.append({"kind": "crash", "scn": c["scn"], "scenario": byid[c["scn"]], "stderr": c["stderr"], "mutant": mu,
                           "sig": {"op": "crash", "panic": line, "site": site.split(" ")[0]},
                           "summary": "router died on hostile input %s: %s at %s" % (json.dumps(mu), line, site)})
    evs = read_trace(tf)
    ok, nev, fails = validate_all(work, "Trace", "TraceSpec", consts, tf, "val", max_viol=8)
    for f in fails:
        mu = next((s for s in byid[f["scn"]]["steps"] if s["op"] == "hostile"), {}).get("hm")
        violations.append({"kind": "trace-rejected", "scn": f["scn"], "scenario": byid[f["scn"]], "step": f["step"], "mutant": mu,
                           "explain": f["explain"], "story": f["story"].split("\n"), "sig": violation_sig(f),
                           "summary": "after hostile input %s another session was not served per specification (step %d)" % (json.dumps(mu), f["step"])})
    if replay:
        return {"violations": violations, "coverage": {}}
    groups, order = split_by_scn(evs)
    bad = {v["scn"] for v in violations}
    good = [s for s in order if s not in bad][:2]
    cov = {"states": st["distinct"], "transitions": st["generated"], "traces_validated_against_impl": ok + wire_cov[0],
           "wire_scenarios": wire_cov[0], "wire_steps": wire_cov[1],
           "samples": [{"scenario": s, "mutant": next((x for x in byid[s]["steps"] if x["op"] == "hostile"), {}).get("hm"),
                        "story": scenario_story(groups[s]).split("\n")[-14:]} for s in good],
           "evaluations": len(scns), "distinct_nontrivial": len({json.dumps(next((x for x in s["steps"] if x["op"] == "hostile"), {}).get("hm"), sort_keys=True) for s in scns}),
           "rule": "TLC enumerates spec/Hostile.tla (template x position x kind x phase); each mutant is sent by an offender session "
                   "while bystanders hold subscriptions/registrations on disjoint URIs; afterwards probe steps by the bystanders must be "
                   "answered exactly per Core.tla; a dead worker process is a crash verdict. distinct = distinct mutants executed",
           "crashes": len(crashes), "exhaustive": tier == "thorough"}
    return {"violations": violations, "coverage": cov,
            "assumptions": ["ill-typed *fields* (as opposed to option values) need a serializer and are covered by the wire family",
                            "structural enumeration, not all byte strings", "TLC", "testing/synctest"]}
