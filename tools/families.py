"""Property table and the per-family runners (DESIGN.md sections 4 and 5)."""
import collections, json, os, random, time
from vlib import *  # noqa

BAG = {
    "pubsub": '<<"join","sub","sub","unsub","pub","pub","pub","leave">>',
    "rpc": '<<"join","reg","reg","unreg","call","call","call","cancel","yield","yield","inverr","leave","adv">>',
    "cancel": '<<"join","reg","call","call","call","cancel","cancel","cancel","yield","inverr","leave","adv","adv","adv">>',
    "mixed": '<<"join","sub","unsub","pub","reg","unreg","call","cancel","yield","inverr","leave","adv">>',
    "meta": '<<"join","sub","sub","unsub","reg","reg","unreg","msess","msess","mreg","mreg","msub","msub","leave">>',
    "kill": '<<"join","join","sub","sub","reg","call","tst","tst","kill","kill","msess","leave","pub">>',
    "hist": '<<"join","sub","unsub","pub","pub","pub","pub","hist","hist","hist","adv","leave">>',
    "disc": '<<"join","join","sub","sub","sub","pub","pub","pub","reg","reg","call","call","msess","leave">>',
    "churn": '<<"join","join","sub","pub","reg","call","call","cancel","yield","leave","leave","leave","adv">>',
}

ALL_CLASSES = ["sess", "pubsub", "details", "meta", "metaapi", "rpcreply", "rpcroute", "rpcintr", "snap"]

MC_PUBSUB = ["TablesOK", "C01_Delivery", "C01_NoEventsOtherwise", "C01_StableIds", "C01_ViewAgrees"]
MC_RPC_KINDS = ["join", "reg", "unreg", "call", "cancel", "yield", "inverr", "leave", "adv"]

PROPS = {
    "C01": dict(family="core",
                mc=dict(kinds=["join", "sub", "unsub", "pub", "leave"], inv=MC_PUBSUB,
                        quick=dict(steps=5, nsess=2), thorough=dict(steps=6, nsess=3)),
                gen=[dict(bag="pubsub", depth=16, quick=160, thorough=2500)],
                classes=["pubsub"]),
    "C02": dict(family="core",
                mc=dict(kinds=MC_RPC_KINDS,
                        inv=["TablesOK", "C02_AtMostOneFinal", "C02_NoStray", "C02_Owed", "C02_NoOrphan", "C02_NoLateTimer"],
                        quick=dict(steps=5, nsess=2), thorough=dict(steps=6, nsess=3)),
                gen=[dict(bag="rpc", depth=18, quick=160, thorough=2500),
                     dict(bag="cancel", depth=18, quick=80, thorough=1500)],
                classes=["rpcreply"]),
    "C03": dict(family="core",
                mc=dict(kinds=MC_RPC_KINDS,
                        inv=["TablesOK", "C03_FreshInvocationIds", "C03_RegView", "C03_Routing", "C03_NoInvocationOtherwise"],
                        quick=dict(steps=5, nsess=2), thorough=dict(steps=6, nsess=3)),
                gen=[dict(bag="rpc", depth=18, quick=200, thorough=3000)],
                classes=["rpcroute", "rpcreply"]),
    "C05": dict(family="core",
                mc=dict(kinds=["join", "sub", "pub", "reg", "call", "cancel", "yield", "leave", "adv"],
                        inv=["TablesOK", "C05_NoTrace", "C05_IdleEmpty"],
                        quick=dict(steps=5, nsess=2), thorough=dict(steps=6, nsess=3)),
                gen=[dict(bag="churn", depth=18, quick=120, thorough=2500),
                     dict(bag="mixed", depth=20, quick=60, thorough=1500),
                     dict(bag="kill", depth=18, quick=60, thorough=1500)],
                classes=["sess", "pubsub", "meta", "rpcreply", "rpcroute", "rpcintr", "snap"]),
    "C18": dict(family="core",
                mc=dict(kinds=["join", "wsub", "sub", "reg", "kill", "tst", "leave"],
                        inv=["TablesOK", "C18_ObserverView", "C18_Kill", "C18_Testaments", "C05_NoTrace"],
                        quick=dict(steps=5, nsess=2), thorough=dict(steps=6, nsess=3)),
                gen=[dict(bag="meta", depth=18, quick=160, thorough=2500),
                     dict(bag="kill", depth=18, quick=100, thorough=2000)],
                classes=["sess", "meta", "metaapi", "rpcreply"]),
    "C20": dict(family="core",
                mc=dict(kinds=["join", "sub", "unsub", "pub", "leave"], inv=MC_PUBSUB + ["C20_Retention"],
                        quick=dict(steps=5, nsess=2), thorough=dict(steps=6, nsess=3), mode="hist"),
                gen=[dict(bag="hist", depth=18, quick=220, thorough=3000, mode="hist")],
                classes=["metaapi", "rpcreply", "pubsub"]),
    "C10": dict(family="core",
                mc=dict(kinds=["join", "sub", "pub", "reg", "call", "yield", "leave"], inv=["TablesOK"], props=["C10_Refusal"],
                        quick=dict(steps=4, nsess=3), thorough=dict(steps=6, nsess=3), mode="authz"),
                gen=[dict(bag="mixed", depth=20, quick=200, thorough=3000, mode="authz"),
                     dict(bag="meta", depth=16, quick=60, thorough=1000, mode="authz")],
                classes=["sess", "pubsub", "meta", "metaapi", "rpcreply", "rpcroute", "rpcintr"]),
    "C11": dict(family="core", realms=True,
                mc=dict(kinds=["join", "sub", "pub", "reg", "call", "yield", "leave", "kill"], inv=["TablesOK", "C05_NoTrace"],
                        quick=dict(steps=4, nsess=2), thorough=dict(steps=5, nsess=3)),
                gen=[dict(bag="mixed", depth=14, quick=200, thorough=2400),
                     dict(bag="kill", depth=14, quick=100, thorough=1200),
                     dict(bag="meta", depth=14, quick=100, thorough=1200)],
                classes=["sess", "pubsub", "meta", "metaapi", "rpcreply", "rpcroute", "rpcintr", "snap"]),
    "C12": dict(family="core",
                mc=dict(kinds=["join", "sub", "pub", "reg", "call", "leave", "disc"],
                        inv=["TablesOK", "C12_EventDisclosure", "C12_CallerDisclosure", "C12_RefusedDisclosure"],
                        quick=dict(steps=4, nsess=2), thorough=dict(steps=5, nsess=2)),
                gen=[dict(bag="disc", depth=18, quick=220, thorough=3000),
                     dict(bag="hist", depth=16, quick=60, thorough=800, mode="hist")],
                classes=["sess", "pubsub", "details", "meta", "metaapi", "rpcroute", "rpcreply"], poison=True),
    "C13": dict(family="core",
                mc=dict(kinds=MC_RPC_KINDS,
                        inv=["C13_AtMostOneInterrupt", "C13_Modes", "C13_TimeoutExact", "C02_NoLateTimer"],
                        quick=dict(steps=5, nsess=2), thorough=dict(steps=6, nsess=3)),
                gen=[dict(bag="cancel", depth=18, quick=220, thorough=3000)],
                classes=["rpcreply", "rpcintr"]),
}


def matches_known(k, v):
    return v.get("known") is not None and v["known"].get("deviation") == k.get("deviation")


def violation_sig(fail):
    ev = fail.get("event") or {}
    ex = fail.get("explain") or {}

    def kinds(side):
        out = []
        for s, ms in sorted((ex.get(side) or {}).items()):
            for m in ms:
                out.append(m.get("k") + (":" + m["e"] if m.get("e") else ""))
        return sorted(out)
    return {"op": (ev.get("in") or {}).get("op"), "how": (ev.get("in") or {}).get("how", ""),
            "expected": kinds("expected"), "logged": kinds("logged")}


def mc_cfg(mc, tier, devs=()):
    b = mc[tier]
    cfg = "SPECIFICATION MCSpec\nCONSTANTS\n  Deviations = %s\n  MCKinds = %s\n  MaxSteps = %d\n  NSess = %d\n  MCMode = \"%s\"\n" % (
        tla_set(devs), tla_set(mc["kinds"]), b["steps"], b["nsess"], mc.get("mode", ""))
    cfg += "INVARIANTS " + " ".join(mc["inv"]) + "\n"
    if mc.get("props"):
        cfg += "PROPERTIES " + " ".join(mc["props"]) + "\n"
    cfg += "CHECK_DEADLOCK FALSE\n"
    return cfg


def op_histogram(evs):
    h = collections.Counter()
    for e in evs:
        if e["ev"] == "step":
            h[e["in"]["op"]] += 1
    return dict(h)


def distinct_shapes(evs):
    """distinct non-trivial (input kind, multiset of output kinds) pairs: a step is
    non-trivial when it produced at least one message"""
    shapes = set()
    for e in evs:
        if e["ev"] != "step" or not e["out"]:
            continue
        outs = tuple(sorted((so["s"] == e["in"]["s"], m["k"], m["e"]) for so in e["out"] for m in so["m"]))
        shapes.add((e["in"]["op"], e["in"].get("how", ""), outs))
    return len(shapes)


def corrupt_trace(evs):
    """binding self-test: remove one received message from the first step that
    has one of the compared classes; the trace must then be rejected"""
    out = json.loads(json.dumps(evs))
    for n, e in enumerate(out):
        if e["ev"] == "step" and e["out"] and e["in"]["op"] not in ("join",):
            e["out"][0]["m"] = e["out"][0]["m"][1:]
            if not e["out"][0]["m"]:
                e["out"] = e["out"][1:]
            return out, n + 1
    return None, None


def combine_realms(scns, seed, prop):
    """C11: two or three independently generated single-realm scenarios run
    simultaneously in one router, with identical URIs and colliding ids; the
    second realm is added at run time, the third is created from the realm
    template, and one realm is removed in the middle"""
    rnd = random.Random(seed)
    out = []
    pool = list(scns)
    n = 0
    while len(pool) >= 2:
        k = 3 if len(pool) >= 3 and rnd.random() < 0.5 else 2
        parts, pool = pool[:k], pool[k:]
        n += 1
        realms, queues = [], []
        for r, sc in enumerate(parts):
            cfg = dict(sc["cfg"])
            cfg["late"] = (r == 1)
            cfg["template"] = (r == 2)
            realms.append(cfg)
            q = []
            for st in sc["steps"]:
                st = json.loads(json.dumps(st))
                st["r"] = r
                if st.get("s"):
                    st["s"] = "r%d%s" % (r, st["s"])
                q.append(st)
            if r == 1:
                q.insert(0, {"op": "addrealm", "r": 1})
            queues.append(q)
        steps = []
        while any(queues):
            r = rnd.choice([i for i, q in enumerate(queues) if q])
            steps.append(queues[r].pop(0))
        victim = rnd.randrange(k)
        steps.insert(rnd.randrange(len(steps) // 2, len(steps) + 1), {"op": "rmrealm", "r": victim})
        out.append({"id": "%s.realms%d.%04d" % (prop, seed, n), "realms": realms, "steps": steps, "epilogue": True})
    return out


def run_core(prop, spec, tier, seed, work, replay):
    known = [k for k in known_findings(prop) if k.get("status") == "known" and k.get("deviation")]
    devs = []      # the specification the properties demand: no deviation enabled
    classes = spec["classes"]
    consts = {"Deviations": tla_set(devs), "Classes": tla_set(classes)}
    binary = build_harness(work)
    violations = []
    cov = {}
    if replay:
        rp = json.load(open(replay))
        scns = [rp["scenario"]]
        mcst = None
    else:
        # leg 1
        mcst = model_check(work, "MC", mc_cfg(spec["mc"], tier), timeout=3000, tag="mc")
        log("leg 1: %d distinct states, %d generated, %.0fs" % (mcst["distinct"], mcst["generated"], mcst["wall_s"]))
        # leg 2: generate
        scns = []
        for gi, g in enumerate(spec["gen"]):
            part = gen_scenarios(work, "Gen", {"Deviations": tla_set(devs), "Depth": g["depth"], "Mode": '"%s"' % g.get("mode", "")},
                                 g[tier], g["depth"], seed * 7919 + gi, "gen%d" % gi, "%s.%s%d." % (prop, g["bag"], seed),
                                 defs={"KindBag": BAG[g["bag"]]})
            for s in part:
                s["epilogue"] = True
                s["poison"] = bool(spec.get("poison"))
            scns += part
        if spec.get("realms"):
            scns = combine_realms(scns, seed, prop)
    byid = {s["id"]: s for s in scns}
    for s in list(scns):
        for r in range(len(s.get("realms") or [])):
            byid["%s#%d" % (s["id"], r)] = s
    tf, crashes = run_exec(work, binary, scns, "ex")
    for c in crashes:
        violations.append({"kind": "crash", "scn": c["scn"], "scenario": byid[c["scn"]], "stderr": c["stderr"],
                           "sig": {"op": "crash"},
                           "summary": "the worker running the router died in scenario %s: %s" % (
                               c["scn"], next((l for l in c["stderr"].splitlines() if l.startswith("panic:") or l.startswith("fatal error:")), "?"))})
    evs = read_trace(tf)
    ok, nev, fails = validate_all(work, "Trace", "TraceSpec", consts, tf, "val")
    groups0, _ = split_by_scn(evs)
    for f in fails:
        v = {"kind": "trace-rejected", "scn": f["scn"], "scenario": byid[f["scn"]], "step": f["step"],
             "explain": f["explain"], "story": f["story"].split("\n"), "sig": violation_sig(f),
             "summary": "scenario %s: the recorded execution is not a behaviour of the specification at step %d (%s)" % (
                 f["scn"], f["step"], json.dumps(violation_sig(f)))}
        # a rejection that one listed deviation of the code explains is a known finding
        for k in known:
            fk = work.path("known.ndjson")
            with open(fk, "w") as fh:
                for e in groups0[f["scn"]]:
                    fh.write(json.dumps(e) + "\n")
            acc, _, _, _ = validate(work, "Trace", "TraceSpec", dict(consts, Deviations=tla_set([k["deviation"]])), fk, "known")
            if acc:
                v["known"] = k
                break
        violations.append(v)
    if replay:
        return {"violations": violations, "coverage": {}}
    # binding self-test on the first accepted scenarios
    groups, order = split_by_scn(evs)
    bad = {v["scn"] for v in violations}
    good = [s for s in order if s not in bad][:3]
    selftest = "skipped"
    if good:
        sub = [e for s in good for e in groups[s]]
        cor, line = corrupt_trace(sub)
        if cor:
            f = work.path("selftest.ndjson")
            with open(f, "w") as fh:
                for e in cor:
                    fh.write(json.dumps(e) + "\n")
            accepted, depth, _, _ = validate(work, "Trace", "TraceSpec", dict(consts, Classes=tla_set(ALL_CLASSES)), f, "selftest")
            if accepted:
                raise Infra("binding self-test failed: a trace with a dropped message was accepted")
            selftest = "trace with one received message removed at line %d rejected at line %s" % (line, depth)
    sample = []
    for s in good[:2]:
        sample.append({"scenario": s, "story": scenario_story(groups[s]).split("\n")})
    cov = {"states": mcst["distinct"], "transitions": mcst["generated"],
           "traces_validated_against_impl": ok,
           "samples": sample,
           "evaluations": sum(1 for e in evs if e["ev"] == "step"),
           "distinct_nontrivial": distinct_shapes(evs),
           "rule": "TLC simulation of Gen.tla (seeded) generates input sequences; each is executed on the real router "
                   "in a synctest bubble and its recorded trace validated by TLC against Trace.tla; evaluations = validated "
                   "steps; distinct non-trivial = distinct (input kind, multiset of received message kinds) with at least one message",
           "scenarios_generated": len(scns), "trace_events": len(evs), "ops": op_histogram(evs),
           "leg1": {"config": spec["mc"][tier], "invariants": spec["mc"]["inv"], "wall_s": mcst["wall_s"]},
           "classes_compared": classes, "binding_selftest": selftest,
           "checker_cmd": "tlc MC.tla (leg 1); tlc -simulate Gen.tla (leg 2); tlc Trace.tla (leg 3)",
           "exhaustive": False}
    assumptions = ["small-scope: <= 4 sessions, scenario length <= 20, URI universe of Gen.tla",
                   "harness abstraction alpha (harness/exec.go) is faithful",
                   "testing/synctest quiescence and virtual clock",
                   "TLC"]
    return {"violations": violations, "coverage": cov, "assumptions": assumptions}
