"""C14: serializers (spec/Codec.tla; harness/codec_test.go)."""
import json, os, re, subprocess, time
from concurrent.futures import ThreadPoolExecutor
from vlib import *  # noqa


def enumerate_vectors(work, part):
    cfg = 'SPECIFICATION Spec\nCONSTANTS Part = "%s"\n  LogFile = "/dev/null"\nINVARIANT Emitted\nCHECK_DEADLOCK FALSE\n' % part
    rc, out, wall = tlc(work, "Codec", cfg, [], 900, workers=1, tag="codec-" + part, javaopts="-Xss512m")
    vecs = [json.loads(unq(m.group(1))) for m in re.finditer(r'<<"SCN", (".*")>>', out)]
    st = parse_mc_stats(out)
    if not vecs or st is None or "Error:" in out:
        raise Infra("vector enumeration failed (%s):\n%s" % (part, out[-2000:]))
    return vecs, st


def check_chunk(work, path, tag):
    cfg = 'SPECIFICATION Spec\nCONSTANTS Part = "check"\n  LogFile = "%s"\nINVARIANT Agrees\nCHECK_DEADLOCK FALSE\n' % path
    rc, out, wall = tlc(work, "Codec", cfg, [], 1800, workers=1, tag=tag, javaopts="-Xss512m")
    if "No error has been found" in out:
        return []
    m = re.search(r"v = (\{[^}]*\})", out)
    if not m:
        raise Infra("codec log validation broke (%s):\n%s" % (tag, out[-2500:]))
    return [int(x) for x in re.findall(r"\d+", m.group(1))]


def show(a):
    t = a.get("t")
    if t == "n":
        return None
    if t == "l":
        return [show(x) for x in a["q"]]
    if t == "d":
        return {p["k"]: show(p["v"]) for p in a["q"]}
    if t == "b":
        return a["s"] == "true"
    if t in ("i", "f"):
        return {"max": "2^53", "max-1": "2^53-1"}.get(a["s"], a["s"])
    return a["s"]


def run_codec(prop, spec, tier, seed, work, replay):
    binary = build_harness(work)
    good, st1 = enumerate_vectors(work, "gen")
    bad, st2 = enumerate_vectors(work, "genbad")
    vf = work.path("codec.vec.ndjson")
    with open(vf, "w") as fh:
        for v in good:
            fh.write(json.dumps({"kind": "good", "vec": dict(v, pos=0)}) + "\n")
        for v in bad:
            fh.write(json.dumps({"kind": "bad", "vec": v}) + "\n")
    logf = work.path("codec.log.ndjson")
    env = goenv()
    env.update({"VERIF_SCN": vf, "VERIF_OUT": logf, "VERIF_MUTATE_EVERY": "25" if tier == "quick" else "2"})
    r = subprocess.run([binary, "-test.run", "^TestCodec$", "-test.count=1", "-test.timeout", "0"], cwd=work.dir, env=env, capture_output=True, text=True)
    err = r.stdout + r.stderr
    violations = []
    if r.returncode != 0:
        line = next((l for l in err.splitlines() if l.startswith("panic:") or l.startswith("fatal error:")), None)
        if line is None:
            raise Infra("TestCodec failed:\n" + err[-3000:])
        violations.append({"kind": "crash", "stderr": err[-5000:], "sig": {"op": "crash"},
                           "summary": "a serializer panicked: " + line[:300]})
        lines = []
    else:
        lines = open(logf).read().splitlines()
    nchunk = min(CORES, max(1, len(lines) // 150))
    size = (len(lines) + nchunk - 1) // max(1, nchunk)
    chunks = []
    for i in range(nchunk):
        p = work.path("codec.%d.ndjson" % i)
        open(p, "w").write("\n".join(lines[i * size:(i + 1) * size]) + "\n")
        chunks.append((p, i * size))
    with ThreadPoolExecutor(max_workers=CORES) as ex:
        res = list(ex.map(lambda c: check_chunk(work, c[0], "cc%d" % (c[1] // max(1, size))), chunks))
    for (p, off), badl in zip(chunks, res):
        for n in badl:
            l = json.loads(lines[off + n - 1])
            vec = l["vec"]
            lst = [vec["code"]] + [show(a) for a in vec["fields"]]
            if l["kind"] == "good":
                wrong = {f: (r["err"] if not r["ok"] else ("list of %d elements" % r["n"] if [show(a) for a in r["fields"]] == lst[1:] else [show(a) for a in r["fields"]]))
                         for f, r in l["res"].items() if not r["ok"] or r["fields"] != vec["fields"] or True}
                what = "message %s does not round-trip / has the wrong list form: %s" % (json.dumps(lst, ensure_ascii=False), json.dumps(wrong, ensure_ascii=False)[:400])
            else:
                acc = [f for f, r in l["res"].items() if r["ok"]]
                what = "the list %s (field %d of an incompatible kind) is accepted as a message by %s" % (json.dumps(lst, ensure_ascii=False), vec["pos"], ", ".join(sorted(acc)))
            violations.append({"kind": "codec-disagrees", "line": l, "sig": {"op": l["kind"], "code": vec["code"], "pos": vec["pos"]}, "summary": what})
    # group the rejected-list findings by (field kind accepted) to keep the report readable
    violations = violations[:40]
    if replay:
        return {"violations": violations, "coverage": {}}
    selftest = "skipped"
    if lines and not violations:
        cor = list(lines[:200])
        k = 17
        l = json.loads(cor[k])
        l["res"]["cbor"]["n"] += 1
        cor[k] = json.dumps(l)
        p = work.path("codec.selftest.ndjson")
        open(p, "w").write("\n".join(cor) + "\n")
        badl = check_chunk(work, p, "ccself")
        if badl != [k + 1]:
            raise Infra("binding self-test failed: altered list length at line %d, rejected lines %s" % (k + 1, badl))
        selftest = "log with one altered list length (line %d) rejected at exactly that line" % (k + 1)
    mut = open(logf + ".mutations").read().split() if os.path.exists(logf + ".mutations") else ["0", "0"]
    cov = {"states": st1["distinct"] + st2["distinct"], "transitions": st1["generated"] + st2["generated"],
           "traces_validated_against_impl": len(lines) - len(violations),
           "samples": [dict(json.loads(lines[i])["vec"], kind=json.loads(lines[i])["kind"]) for i in (3, len(good) // 2, len(good) + 5) if i < len(lines)],
           "evaluations": 3 * len(lines), "distinct_nontrivial": len(set(lines)),
           "rule": "TLC enumerates spec/Codec.tla: every message shape x payload shape (values of the data model up to depth 3, boundary integers "
                   "written symbolically) and, for every shape and field position, a value of every incompatible kind; the harness builds each message, "
                   "serialises and deserialises it with JSON, MessagePack and CBOR (and decodes the wire list generically for its length), logs the result in the "
                   "abstract form, and TLC evaluates round trip, cross-format agreement and the list form on every line; in addition every prefix and "
                   "single-octet substitutions of sampled encodings are fed to Deserialize / DeserializeDataItem (must return). distinct = distinct logged lines",
           "good_vectors": len(good), "bad_vectors": len(bad), "mutated_inputs": int(mut[0]), "encodings_mutated": int(mut[1]),
           "binding_selftest": selftest, "checker_cmd": "tlc Codec.tla (enumeration and validation); go test -run TestCodec", "exhaustive": True,
           "exhaustive_over": "the vector sets Good and BadField of Codec.tla"}
    return {"violations": violations, "coverage": cov,
            "assumptions": ["values up to depth 3 over 12 atoms; 'arbitrary bytes never panic' only for prefixes and single-octet substitutions of generated encodings",
                            "binary values are not generated (JSON has no binary type)", "TLC"]}
