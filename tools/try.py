#!/usr/bin/env python3
"""developer helper: gen -> exec -> validate for one profile"""
import sys, json
sys.path.insert(0, "/verif/tools")
from vlib import *
profile, num, depth, seed = sys.argv[1], int(sys.argv[2]), int(sys.argv[3]), int(sys.argv[4])
classes = sys.argv[5].split(",") if len(sys.argv) > 5 else ["sess", "pubsub", "meta", "rpc"]
devs = sys.argv[6].split(",") if len(sys.argv) > 6 and sys.argv[6] else []
PROFILES = {
 "pubsub": '<<"join","sub","sub","unsub","pub","pub","pub","leave">>',
 "rpc": '<<"join","reg","reg","unreg","call","call","call","cancel","yield","yield","inverr","leave","adv">>',
 "meta": '<<"join","sub","sub","unsub","reg","reg","unreg","msess","msess","mreg","mreg","msub","msub","leave">>',
 "kill": '<<"join","join","sub","sub","reg","call","tst","tst","kill","kill","msess","leave","pub">>',
 "hist": '<<"join","sub","unsub","pub","pub","pub","pub","hist","hist","hist","adv","leave">>',
 "stall": '<<"join","sub","pub","pub","reg","reg","call","call","call","yield","yield","yield","stall","stall","resume","adv","adv">>',
 "burst": '<<"join","join","sub","sub","sub","reg","pub","bpub","bpub","bpub","leave","bmix">>',
 "cancel": '<<"join","reg","regsh","call","call","call","cancel","cancel","ckill","ckill","answer","answer","yield","inverr","leave","adv","adv","adv">>',
 "tst": '<<"join","join","sub","sub","tst","tst","tst","tst","kill","leave","leave","pub","msess">>',
 "mixed": '<<"join","sub","unsub","pub","reg","unreg","call","cancel","yield","inverr","leave","adv">>',
}
mode = os.environ.get("MODE", "hist" if profile == "hist" else "")
w = Work("try")
os.environ["VERIF_KEEP"] = "1"
b = build_harness(w)
scns = gen_scenarios(w, "Gen", {"Deviations": tla_set(devs), "Depth": depth, "Mode": '"%s"' % mode, "Scripted": os.environ.get("SCRIPTED", "FALSE")}, num, depth, seed, "gen", "g",
   defs={"KindBag": PROFILES.get(profile) or ("<<" + ",".join('"%s"' % k for k in profile.split("+")) + ">>")})
for s in scns:
    s["epilogue"] = True
    s["poison"] = bool(os.environ.get("POISON"))
tf, crashes = run_exec(w, b, scns, "ex")
for c in crashes:
    print("CRASH", c["scn"]); print(c["stderr"][-1500:])
ok, nev, fails = validate_all(w, "Trace", "TraceSpec", {"Deviations": tla_set(devs), "Classes": tla_set(classes)}, tf, "val")
print("accepted scenarios", ok, "events", nev, "failures", len(fails))
for f in fails:
    print("FAIL", f["scn"], "step", f["step"])
    print(f["story"])
    print(json.dumps(f["explain"], indent=1)[:3000])
print(w.dir)
