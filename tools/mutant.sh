#!/bin/sh
# usage: tools/mutant.sh <patch.diff> <tier> <prop> [<prop>...]
# applies the patch to /repo, runs the named checks, always restores /repo.
patch="$1"; tier="$2"; shift 2
cd /repo || exit 2
if [ -n "$(git status --porcelain)" ]; then echo "repo not clean"; exit 2; fi
git apply "$patch" || { echo "patch does not apply"; exit 2; }
cd /verif
for p in "$@"; do
  out=$(VERIF_KEEP= ./bin/check "$p" "$tier" 2>&1); rc=$?
  echo "$p rc=$rc $(echo "$out" | grep -c '^VIOLATION') violations; $(echo "$out" | grep -E 'VIOLATION|INCONCLUSIVE' | head -1 | cut -c1-160)"
  echo "$out" | grep -A1 '^VIOLATION' | grep -v '^VIOLATION' | head -2 | cut -c1-300
done
git -C /repo checkout -- . ; git -C /repo status --porcelain | head -3
